//! C13 — `recreated_zlib_chunks` under a simulated disk/network (engine `io`).
//!
//! Workload: a generated file F; E = expand_zlib_chunks(F) (real code, no faults); fault-free
//! baseline R. Then the real `recreated_zlib_chunks` runs against `SimReader`/`SimWriter`
//! under an explicit `IoPlan`; the oracle is evaluated on the recorded history.

use crate::engine::*;
use crate::json::{self, J};
use crate::prng::{derive, hash_bytes, Digest, Rng};
use crate::simio::*;
use crate::util;
use crate::workload::{self, Workload};
use std::collections::HashSet;
use std::panic::{catch_unwind, AssertUnwindSafe};
use std::sync::Arc;

pub struct IoEngine;

pub struct Prepared {
    /// hook points passed by one fault-free recreate: a deterministic proxy for its cost
    pub recreate_cost: u64,
    pub file: Vec<u8>,
    pub e: Vec<u8>,
    pub r: Vec<u8>,
    pub layout: Layout,
    pub src_bounds: Arc<Vec<u64>>,
    pub dst_bounds: Arc<Vec<u64>>,
    pub wl_hash: u64,
}

/// fault-free pipeline; Err(reason) if the workload does not round-trip on this tree
/// (C01's territory, never a C13 alarm)
pub fn prepare(file: Vec<u8>) -> Result<Prepared, String> {
    let e = match catch_unwind(AssertUnwindSafe(|| preflate_rs::expand_zlib_chunks(&file, 0))) {
        Ok(Ok(e)) => e,
        Ok(Err(err)) => return Err(format!("expand_err:{}", err.exit_code().as_integer_error_code())),
        Err(_) => return Err(format!("expand_panic:{}", util::panic_site(&util::take_last_panic()))),
    };
    // precondition (C01 territory): the fault-free round trip exactly as the library's own tests
    // do it, Cursor -> Vec
    let mut plain_out: Vec<u8> = Vec::new();
    let cost = std::rc::Rc::new(std::cell::Cell::new(0u64));
    let cost2 = cost.clone();
    // a block costs far more than a token (tables are rebuilt per block)
    let prev_handler = preflate_rs::verif_hooks::set_handler(Some(Box::new(move |s| {
        cost2.set(cost2.get() + if s == preflate_rs::verif_hooks::Site::RecreateBlocksBlock { 24 } else { 1 })
    })));
    let res = catch_unwind(AssertUnwindSafe(|| {
        let mut cur = std::io::Cursor::new(&e[..]);
        preflate_rs::recreated_zlib_chunks(&mut cur, &mut plain_out)
    }));
    preflate_rs::verif_hooks::set_handler(prev_handler);
    let recreate_cost = cost.get();
    match res {
        Ok(Ok(())) => {}
        Ok(Err(err)) => return Err(format!("recreate_err:{}", err.exit_code().as_integer_error_code())),
        Err(_) => return Err(format!("recreate_panic:{}", util::panic_site(&util::take_last_panic()))),
    }
    if plain_out != file {
        return Err("roundtrip_mismatch".to_string());
    }
    // the same run through a destination that implements nothing but write(): it records where
    // the write calls start (structural boundaries of the destination). Its output is *judged*
    // by the caller (prepare_checked): a destination is free to be any Write implementation.
    let mut rec = RecordingWriter::default();
    let res = catch_unwind(AssertUnwindSafe(|| {
        let mut cur = std::io::Cursor::new(&e[..]);
        preflate_rs::recreated_zlib_chunks(&mut cur, &mut rec)
    }));
    let recording_ok = matches!(res, Ok(Ok(()))) && rec.data == file;
    if !matches!(res, Ok(_)) {
        let _ = util::take_last_panic();
    }
    if !recording_ok {
        // boundaries are unreliable; fall back to none (the fault runs will report the violation)
        rec.call_offsets.clear();
    }
    let layout = parse_layout(&e);
    let src_bounds = Arc::new(layout.boundaries());
    let mut d = rec.call_offsets.clone();
    d.push(file.len() as u64);
    d.sort();
    d.dedup();
    let wl_hash = hash_bytes(&file);
    Ok(Prepared {
        recreate_cost,
        r: file.clone(),
        file,
        e,
        layout,
        src_bounds,
        dst_bounds: Arc::new(d),
        wl_hash,
    })
}

#[derive(Debug, Clone, PartialEq)]
pub enum CallResult {
    Ok,
    Err(i32),
    Panic(String),
}

pub struct RunOutcome {
    pub result: CallResult,
    pub accepted: Vec<u8>,
    pub trace: IoTrace,
    pub digest: u64,
}

pub fn execute(prep: &Prepared, plan: &IoPlan) -> RunOutcome {
    let budget = 8 * (prep.e.len() as u64 + prep.r.len() as u64) + 1000;
    let shared = new_shared(budget);
    let mut reader = SimReader::new(&prep.e, plan, prep.src_bounds.clone(), shared.clone());
    let mut writer = SimWriter::new(plan, prep.dst_bounds.clone(), shared.clone());
    let res = catch_unwind(AssertUnwindSafe(|| preflate_rs::recreated_zlib_chunks(&mut reader, &mut writer)));
    let result = match res {
        Ok(Ok(())) => CallResult::Ok,
        Ok(Err(e)) => CallResult::Err(e.exit_code().as_integer_error_code()),
        Err(_) => CallResult::Panic(util::take_last_panic()),
    };
    drop(reader);
    let accepted = std::mem::take(&mut writer.accepted);
    drop(writer);
    let sh = std::rc::Rc::try_unwrap(shared).ok().expect("stubs dropped").into_inner();
    let mut trace = sh.trace;
    trace.calls_after_last_transient = sh.total_calls - sh.last_transient_call;
    let mut d = trace.digest;
    d.u64(match &result {
        CallResult::Ok => 0,
        CallResult::Err(c) => 0x100 + *c as u64,
        CallResult::Panic(_) => 0xdead,
    });
    d.bytes(&accepted);
    RunOutcome {
        result,
        accepted,
        digest: d.0,
        trace,
    }
}

/// the oracle; returns (clause, description) for a violation
pub fn judge(prep: &Prepared, out: &RunOutcome) -> Option<(String, String)> {
    let t = &out.trace;
    let is_prefix = out.accepted.len() <= prep.r.len() && prep.r[..out.accepted.len()] == out.accepted[..];
    if let CallResult::Panic(msg) = &out.result {
        return Some(("panic".into(), format!("recreated_zlib_chunks panicked: {}", msg)));
    }
    if t.budget_exceeded {
        return Some((
            "no_progress".into(),
            format!(
                "call did not return within the step budget after the last transient fault ({} stub calls)",
                t.calls_after_last_transient
            ),
        ));
    }
    if !is_prefix {
        let first = out.accepted.iter().zip(prep.r.iter()).position(|(a, b)| a != b).unwrap_or(prep.r.len());
        return Some((
            "not_a_prefix".into(),
            format!(
                "bytes accepted by the destination are not a prefix of the original file (first difference at {}, accepted {}, original {})",
                first,
                out.accepted.len(),
                prep.r.len()
            ),
        ));
    }
    let complete = out.accepted.len() == prep.r.len();
    if t.hard_returned > 0 {
        // an I/O error was returned to the library: the call must fail
        return match out.result {
            CallResult::Ok => Some((
                "error_swallowed".into(),
                format!(
                    "an I/O error was returned to the library but the call returned Ok ({} of {} bytes written)",
                    out.accepted.len(),
                    prep.r.len()
                ),
            )),
            _ => None,
        };
    }
    if t.src_eof_injected {
        // premature end of the source: not judged beyond panic / prefix (format has no end marker)
        return None;
    }
    if t.interrupted_returned > 0 || t.zero_write_returned > 0 {
        return match out.result {
            CallResult::Ok if !complete => Some((
                "transient_truncated".into(),
                format!(
                    "Ok after a transient fault but only {} of {} bytes were written",
                    out.accepted.len(),
                    prep.r.len()
                ),
            )),
            _ => None,
        };
    }
    // fragmentation only
    match out.result {
        CallResult::Ok if complete => None,
        CallResult::Ok => Some((
            "fragmentation_truncated".into(),
            format!(
                "no error was injected, call returned Ok, but only {} of {} bytes were written",
                out.accepted.len(),
                prep.r.len()
            ),
        )),
        CallResult::Err(c) => Some((
            "fragmentation_failed".into(),
            format!("no error was injected but the call failed with exit code {} under fragmented I/O", c),
        )),
        CallResult::Panic(_) => unreachable!(),
    }
}

fn frag_name(f: &Frag) -> &'static str {
    match f {
        Frag::Whole => "whole",
        Frag::One => "one",
        Frag::Seeded(_) => "seeded",
        Frag::Boundary(_) => "boundary",
    }
}

fn outcome_class(out: &RunOutcome) -> &'static str {
    match out.result {
        CallResult::Ok => "ok",
        CallResult::Err(_) => "err",
        CallResult::Panic(_) => "panic",
    }
}

fn plan_key(plan: &IoPlan, fired: &[usize]) -> u64 {
    let mut d = Digest::default();
    d.u64(match plan.src_frag {
        Frag::Whole => 1,
        Frag::One => 2,
        Frag::Seeded(k) => 0x100 + k as u64,
        Frag::Boundary(x) => 0x200 + (x as i64 + 8) as u64,
    });
    d.u64(match plan.dst_frag {
        Frag::Whole => 1,
        Frag::One => 2,
        Frag::Seeded(k) => 0x100 + k as u64,
        Frag::Boundary(x) => 0x200 + (x as i64 + 8) as u64,
    });
    if matches!(plan.src_frag, Frag::Seeded(_)) || matches!(plan.dst_frag, Frag::Seeded(_)) {
        d.u64(plan.tail_seed);
    }
    let mut f: Vec<usize> = fired.to_vec();
    f.sort();
    for i in f {
        let x = &plan.faults[i];
        d.u64(x.side as u64);
        d.u64(match x.kind {
            FaultKind::Hard(k) => 0x10 + k as u64 + (((x.arg as u64 & 0xff) % 5) << 8) + ((x.arg as u64 & 0x100) << 4),
            FaultKind::Interrupted => 0x30 + x.arg.clamp(1, 3) as u64,
            FaultKind::Zero => 0x40 + ((x.arg as u64 & 0x100) >> 4),
        });
        d.u64(x.at);
    }
    d.0
}

pub fn replay_doc(prep: &Prepared, gen: Option<(u64, u64, &str)>, plan: &IoPlan, with_bytes: bool) -> J {
    let mut doc = J::obj()
        .set("engine", J::str("io"))
        .set("workload_hash", J::Str(format!("{:016x}", prep.wl_hash)))
        .set("plan_key", J::Str(format!("{:016x}", plan_key(plan, &(0..plan.faults.len()).collect::<Vec<_>>()))))
        .set("plan", plan.to_json());
    if let Some((master, job, tier)) = gen {
        doc.put(
            "workload_gen",
            J::obj().set("master_seed", J::u(master)).set("job", J::u(job)).set("tier", J::str(tier)),
        );
    }
    if with_bytes {
        doc.put("workload_hex", J::Str(json::hex(&prep.file)));
    }
    doc
}

fn job_workload(master: u64, job: u64, tier: Tier) -> Workload {
    if tier == Tier::Thorough && job >= 640 {
        if let Some(f) = workload::sample_file((job - 640) as usize) {
            return Workload {
                file: f,
                members: Vec::new(),
            };
        }
    }
    let mut rng = Rng::new(derive(master, job));
    if job % 16 == 3 {
        return Workload {
            file: workload::gen_png_edge_file(&mut rng),
            members: Vec::new(),
        };
    }
    if job % 16 == 11 {
        return Workload {
            file: workload::gen_cut_trailer_file(&mut rng),
            members: Vec::new(),
        };
    }
    let sc = match tier {
        Tier::Quick => {
            if job % 8 == 7 {
                workload::MEDIUM
            } else {
                workload::SMALL
            }
        }
        Tier::Thorough => match job % 10 {
            0..=5 => workload::SMALL,
            6..=8 => workload::MEDIUM,
            _ => workload::LARGE,
        },
    };
    workload::gen_file(&mut rng, sc)
}

struct JobState<'a> {
    /// abstract fault states for which a fault-free follow-up call has already been made
    followed: HashSet<u64>,
    prep: &'a Prepared,
    ctx: &'a JobCtx,
    res: JobResult,
    seen: HashSet<u64>,
    digest: Digest,
    sample_budget: usize,
}

impl<'a> JobState<'a> {
    fn run(&mut self, plan: &IoPlan) {
        if self.res.violations.len() >= 3 {
            return;
        }
        let prep = self.prep;
        let ctx = self.ctx;
        announce_run(ctx, || replay_doc(prep, Some((ctx.master_seed, ctx.job, ctx.tier.name())), plan, false));
        let out = execute(prep, plan);
        self.account(plan, &out);
        let mut verdict = judge(prep, &out);
        // once faults stop the call must behave as if nothing had happened: after a faulted run a
        // fault-free run follows on the same thread (first time per abstract fault state and for
        // one in 16 of the others) and must reproduce the file exactly
        if verdict.is_none() && !out.trace.fired.is_empty() {
            let mut k = Digest::default();
            for &i in out.trace.fired.iter() {
                let f = &plan.faults[i];
                k.u64(f.side as u64);
                k.u64(match f.kind {
                    FaultKind::Hard(_) => 1,
                    FaultKind::Interrupted => 2,
                    FaultKind::Zero => 3,
                });
                if f.side == Side::Src {
                    let (ph, ck) = prep.layout.phase_at(f.at);
                    k.u64(ph as u64);
                    k.u64(ck as u64);
                } else {
                    k.u64(prep.dst_bounds.binary_search(&f.at).is_ok() as u64);
                    let idx = prep.dst_bounds.partition_point(|&b| b <= f.at);
                    k.u64((idx.min(40)) as u64);
                }
            }
            k.u64(match out.result {
                CallResult::Ok => 0,
                CallResult::Err(_) => 1,
                CallResult::Panic(_) => 2,
            });
            if self.followed.insert(k.0) || self.res.evaluations % 16 == 0 {
                let f = execute(prep, &IoPlan::clean());
                self.res.bump("followup_runs_after_a_fault");
                self.digest.u64(f.digest);
                if f.result != CallResult::Ok || f.accepted != prep.r {
                    verdict = Some((
                        "degraded_after_fault".into(),
                        format!(
                            "after a run with an injected fault ({:?}), a fault-free call on the same thread returned {:?} with {} of {} bytes",
                            out.result,
                            f.result,
                            f.accepted.len(),
                            prep.r.len()
                        ),
                    ));
                }
            }
        }
        if let Some((clause, what)) = verdict {
            let (mplan, mout) = if clause == "degraded_after_fault" { (plan.clone(), execute(prep, plan)) } else { minimise(prep, plan, &clause) };
            let (_c, mwhat) = judge(prep, &mout).unwrap_or((clause.clone(), what));
            let key = violation_key(prep, &clause, &mplan, &mout);
            let mut doc = replay_doc(prep, Some((ctx.master_seed, ctx.job, ctx.tier.name())), &mplan, true);
            doc.put("digest", J::Str(format!("{:016x}", mout.digest)));
            doc.put("observed", observed_json(prep, &mout));
            doc.put("unminimised_plan", plan.to_json());
            self.res.violations.push(Violation {
                clause,
                key,
                what: mwhat,
                replay: doc,
            });
        }
    }

    fn account(&mut self, plan: &IoPlan, out: &RunOutcome) {
        let t = &out.trace;
        self.res.evaluations += 1;
        self.res.steps += t.src_calls + t.dst_calls;
        self.digest.u64(out.digest);
        let nontrivial = !t.fired.is_empty() || t.short_reads > 0 || t.partial_writes > 0;
        if nontrivial && self.seen.insert(plan_key(plan, &t.fired)) {
            self.res.distinct += 1;
        }
        for &i in t.fired.iter() {
            let f = &plan.faults[i];
            let side = if f.side == Side::Src { "src" } else { "dst" };
            let kind = match f.kind {
                FaultKind::Hard(k) => {
                    self.res.bump(&format!("fault.error_flavour.{}", FLAVOURS[((f.arg & 0xff) % NFLAVOURS) as usize]));
                    format!("hard.{}", HARD_KINDS[k as usize % HARD_KINDS.len()].1)
                }
                FaultKind::Interrupted => "interrupted".to_string(),
                FaultKind::Zero => {
                    if f.side == Side::Src {
                        "premature_eof".to_string()
                    } else if f.arg & STICKY != 0 {
                        "zero_write_sticky".to_string()
                    } else {
                        "zero_write".to_string()
                    }
                }
            };
            if matches!(f.kind, FaultKind::Hard(_)) && f.arg & STICKY != 0 {
                self.res.bump("fault.sticky_hard_error");
            }
            self.res.bump(&format!("fault.{}.{}", side, kind));
            // abstract state: where did it land
            if f.side == Side::Src {
                let (ph, ck) = self.prep.layout.phase_at(f.at);
                let kclass = match f.kind {
                    FaultKind::Hard(_) => "hard",
                    FaultKind::Interrupted => "intr",
                    FaultKind::Zero => "eof",
                };
                self.res.bump(&format!("st.src.{}.{:?}.k{}.{}", kclass, ph, ck, frag_name(&plan.src_frag)));
                match (ph, f.kind) {
                    (Phase::LiteralLen | Phase::PlainLen | Phase::CorrLen, FaultKind::Hard(_)) => self.res.bump("probe.error_inside_varint"),
                    (Phase::IdatSizes | Phase::IdatHeader | Phase::IdatAdler, FaultKind::Hard(_)) => self.res.bump("probe.error_inside_idat_descriptor"),
                    (Phase::EofProbe, FaultKind::Hard(_)) => self.res.bump("probe.error_on_eof_probe"),
                    (Phase::EofProbe, FaultKind::Interrupted) => self.res.bump("probe.interrupted_on_eof_probe"),
                    (Phase::Tag, FaultKind::Hard(_)) => self.res.bump("probe.error_on_chunk_tag_probe"),
                    (Phase::Tag, FaultKind::Interrupted) => self.res.bump("probe.interrupted_on_chunk_tag_probe"),
                    (Phase::Version, FaultKind::Hard(_)) => self.res.bump("probe.error_on_first_read"),
                    _ => {}
                }
            } else {
                let kclass = match f.kind {
                    FaultKind::Hard(_) => "hard",
                    FaultKind::Interrupted => "intr",
                    FaultKind::Zero => "zero",
                };
                let on_boundary = self.prep.dst_bounds.binary_search(&f.at).is_ok();
                self.res.bump(&format!(
                    "st.dst.{}.{}.{}",
                    kclass,
                    if on_boundary { "at_write_boundary" } else { "inside_write" },
                    frag_name(&plan.dst_frag)
                ));
                if f.at == 0 {
                    self.res.bump("probe.error_on_first_write");
                }
                if matches!(f.kind, FaultKind::Zero) {
                    self.res.bump("probe.zero_write");
                }
            }
        }
        if t.short_reads > 0 {
            self.res.bump("fault.src.short_read_runs");
        }
        if t.partial_writes > 0 {
            self.res.bump("fault.dst.partial_write_runs");
        }
        self.res.count("fault.src.short_reads", t.short_reads);
        self.res.count("fault.dst.partial_writes", t.partial_writes);
        if t.call_after_hard_error {
            self.res.bump("probe.library_called_again_after_hard_error");
        }
        self.res.bump(&format!("outcome.{}", outcome_class(out)));
        if self.sample_budget > 0 && !t.fired.is_empty() && self.res.evaluations % 997 == 3 {
            self.sample_budget -= 1;
            self.res.samples.push(
                J::obj()
                    .set("workload", J::Str(format!("{:016x}", self.prep.wl_hash)))
                    .set("container_len", J::u(self.prep.e.len() as u64))
                    .set("file_len", J::u(self.prep.r.len() as u64))
                    .set("plan", plan.to_json())
                    .set("observed", observed_json(self.prep, out)),
            );
        }
    }
}

fn observed_json(prep: &Prepared, out: &RunOutcome) -> J {
    J::obj()
        .set(
            "result",
            match &out.result {
                CallResult::Ok => J::str("Ok"),
                CallResult::Err(c) => J::Str(format!("Err(exit_code={})", c)),
                CallResult::Panic(m) => J::Str(format!("panic: {}", m)),
            },
        )
        .set("bytes_accepted", J::u(out.accepted.len() as u64))
        .set("original_len", J::u(prep.r.len() as u64))
        .set("src_calls", J::u(out.trace.src_calls))
        .set("dst_calls", J::u(out.trace.dst_calls))
        .set("faults_fired", J::u(out.trace.fired.len() as u64))
}

fn violation_key(prep: &Prepared, clause: &str, plan: &IoPlan, out: &RunOutcome) -> String {
    // identifies the specific failing case: clause + panic site or fault shape + workload
    let shape = match &out.result {
        CallResult::Panic(m) => format!("panic@{}", util::panic_site(m)),
        _ => {
            let mut s = String::new();
            for &i in out.trace.fired.iter() {
                let f = &plan.faults[i];
                let (ph, _) = if f.side == Side::Src {
                    prep.layout.phase_at(f.at)
                } else {
                    (Phase::Unknown, 3)
                };
                s.push_str(&format!(
                    "{}:{}:{:?};",
                    if f.side == Side::Src { "src" } else { "dst" },
                    match f.kind {
                        FaultKind::Hard(_) => "hard",
                        FaultKind::Interrupted => "intr",
                        FaultKind::Zero => "zero",
                    },
                    ph
                ));
            }
            s
        }
    };
    format!("{}:{}:{:016x}", clause, shape, prep.wl_hash)
}

/// bounded greedy minimisation: drop faults, simplify fragmentation; keep only candidates
/// that fail the same oracle clause
pub fn minimise(prep: &Prepared, plan: &IoPlan, clause: &str) -> (IoPlan, RunOutcome) {
    let mut best = plan.clone();
    let mut budget = 300;
    let same = |p: &IoPlan, budget: &mut i32| -> Option<RunOutcome> {
        if *budget <= 0 {
            return None;
        }
        *budget -= 1;
        let o = execute(prep, p);
        match judge(prep, &o) {
            Some((c, _)) if c == clause => Some(o),
            _ => None,
        }
    };
    let mut changed = true;
    while changed && budget > 0 {
        changed = false;
        let mut i = 0;
        while i < best.faults.len() {
            let mut cand = best.clone();
            cand.faults.remove(i);
            if same(&cand, &mut budget).is_some() {
                best = cand;
                changed = true;
            } else {
                i += 1;
            }
        }
        if best.src_frag != Frag::Whole {
            let mut cand = best.clone();
            cand.src_frag = Frag::Whole;
            if same(&cand, &mut budget).is_some() {
                best = cand;
                changed = true;
            }
        }
        if best.dst_frag != Frag::Whole {
            let mut cand = best.clone();
            cand.dst_frag = Frag::Whole;
            if same(&cand, &mut budget).is_some() {
                best = cand;
                changed = true;
            }
        }
        // simplify arguments
        for i in 0..best.faults.len() {
            if best.faults[i].arg > 1 && !matches!(best.faults[i].kind, FaultKind::Hard(_)) {
                let mut cand = best.clone();
                cand.faults[i].arg = 1;
                if same(&cand, &mut budget).is_some() {
                    best = cand;
                    changed = true;
                }
            }
            if let FaultKind::Hard(k) = best.faults[i].kind {
                if k != 0 || best.faults[i].arg != 0 {
                    let mut cand = best.clone();
                    cand.faults[i].kind = FaultKind::Hard(0);
                    cand.faults[i].arg = 0;
                    if same(&cand, &mut budget).is_some() {
                        best = cand;
                        changed = true;
                    }
                }
            }
        }
    }
    if best.src_frag != Frag::Seeded(0) && !matches!(best.src_frag, Frag::Seeded(_)) && !matches!(best.dst_frag, Frag::Seeded(_)) {
        best.tail_seed = 0;
    }
    let out = execute(prep, &best);
    (best, out)
}

fn near_boundary_offsets(bounds: &[u64], len: u64) -> Vec<u64> {
    let mut v = Vec::new();
    for &b in bounds {
        for d in [-2i64, -1, 0, 1, 2] {
            let x = b as i64 + d;
            if x >= 0 && x as u64 <= len {
                v.push(x as u64);
            }
        }
    }
    v.sort();
    v.dedup();
    v
}

/// `min_k` bounds the number of stub calls per run (cost control, not correctness)
fn random_frag(rng: &mut Rng, small: bool, min_k: u32) -> Frag {
    match rng.below(10) {
        0..=2 => Frag::Whole,
        3 => {
            if small {
                Frag::One
            } else {
                Frag::Seeded(3.max(min_k))
            }
        }
        4..=6 => Frag::Seeded((*rng.pick(&[2u32, 3, 7, 64, 1000, 4096, 70000])).max(min_k)),
        _ => Frag::Boundary(rng.range(0, 2) as i8 - 1),
    }
}

fn random_offset(rng: &mut Rng, near: &[u64], len: u64) -> u64 {
    if !near.is_empty() && rng.chance(1, 2) {
        *rng.pick(near)
    } else {
        rng.range(0, len)
    }
}

impl Engine for IoEngine {
    fn info(&self) -> EngineInfo {
        EngineInfo {
            property: "C13",
            name: "simstore io",
            level: "fault_enumeration",
            rule: "per workload (generated file -> container): a hard source error at every container offset 0..=|E| and a hard destination error at every output offset 0..=|R| under up to four fragmentation modes (complete enumeration for |E| <= 16 KiB, boundary +-2 and a seeded sample beyond), then seeded plans of 1-4 faults (hard error kinds, EINTR bursts, Ok(0) writes, premature EOF) with random read/write fragmentation, half of the positions within 2 bytes of a structural boundary. Distinct = distinct (workload, fragmentation modes, set of faults that actually fired with exact offsets); non-trivial = at least one fault fired or one short read / partial write happened.",
            real_components: &[
                "preflate-rs working tree (release, feature verif_hooks): expand_zlib_chunks, recreated_zlib_chunks and everything below",
                "zstd/cabac/crc32fast/byteorder",
                "workload compressors: zlib, zlib-ng, libdeflate, miniz_oxide",
            ],
            stub_components: &[
                "source: SimReader (fragmenting, EINTR, hard errors, premature EOF)",
                "destination: SimWriter (partial accepts, Ok(0), EINTR, hard errors)",
            ],
            assumptions: &[
                "workloads whose fault-free round trip fails on this tree are skipped and counted (C01 territory)",
                "EINTR / Ok(0) may end in Ok with complete output or in Err with a prefix; premature source EOF is judged for panic/prefix only",
                "release profile as shipped (overflow checks off)",
                "one-shot faults: after an injected error the device works again, so a swallowed error is visible as Ok",
            ],
            state_measure: "distinct abstract tuples (side, fault class, structural phase at the fault, chunk kind, fragmentation mode) reached: see abstract_states",
        }
    }

    fn jobs(&self, tier: Tier) -> u64 {
        match tier {
            Tier::Quick => 64,
            Tier::Thorough => 640 + workload::SAMPLE_FILES.len() as u64,
        }
    }

    fn expected_probes(&self, _tier: Tier) -> Vec<&'static str> {
        vec![
            "probe.error_inside_varint",
            "probe.error_inside_idat_descriptor",
            "probe.error_on_eof_probe",
            "probe.interrupted_on_eof_probe",
            "probe.error_on_first_read",
            "probe.error_on_first_write",
            "probe.zero_write",
            "probe.literal_chunk_over_64k",
            "probe.png_chunk",
            "probe.deflate_chunk",
        ]
    }

    fn run_job(&self, ctx: &JobCtx) -> JobResult {
        let mut res = JobResult {
            job: ctx.job,
            ..Default::default()
        };
        let wl = job_workload(ctx.master_seed, ctx.job, ctx.tier);
        let descr = wl.describe();
        let prep = match prepare(wl.file) {
            Ok(p) => p,
            Err(reason) => {
                res.bump("baseline_rejected");
                res.bump(&format!("baseline_rejected.{}", reason));
                res.digest = hash_bytes(reason.as_bytes());
                return res;
            }
        };
        res.bump("workloads");
        if prep.layout.chunk_kinds[1] > 0 {
            res.bump("probe.deflate_chunk");
        }
        if prep.layout.chunk_kinds[2] > 0 {
            res.bump("probe.png_chunk");
        }
        if prep.layout.max_literal > 65536 {
            res.bump("probe.literal_chunk_over_64k");
        }
        if prep.layout.chunk_kinds[1] + prep.layout.chunk_kinds[2] == 0 {
            res.bump("workloads_without_expanded_stream");
        }
        let mut st = JobState {
            followed: HashSet::new(),
            prep: &prep,
            ctx,
            res,
            seen: HashSet::new(),
            digest: Digest::default(),
            sample_budget: 1,
        };
        st.digest.u64(prep.wl_hash);
        let elen = prep.e.len() as u64;
        let rlen = prep.r.len() as u64;
        let mut rng = Rng::new(derive(ctx.master_seed ^ 0x1013, ctx.job));

        // control run
        st.run(&IoPlan::clean());

        // --- enumeration of single hard faults
        let src_near = near_boundary_offsets(&prep.src_bounds, elen);
        let dst_near = near_boundary_offsets(&prep.dst_bounds, rlen);
        let thorough = ctx.tier == Tier::Thorough;
        let full = elen <= 16 * 1024;
        let mid = elen <= if thorough { 16 * 1024 } else { 6 * 1024 };
        let small = elen + rlen <= if thorough { 6 * 1024 } else { 3 * 1024 };
        let min_k = ((elen + rlen) / 3000) as u32;
        // expensive reconstructions (tens of thousands of tokens or blocks per call): enumerate
        // every `stride`-th offset plus all near-boundary offsets, and fewer seeded plans
        let stride = (prep.recreate_cost / 8000).clamp(1, 64) as usize;
        if stride > 1 {
            st.res.bump("workloads_with_thinned_enumeration");
        }
        let modes: [(Frag, bool); 4] = [
            (Frag::Whole, elen + rlen <= if thorough { 160 * 1024 } else { 40 * 1024 }),
            (Frag::Boundary(0), full),
            (Frag::Seeded(7), mid),
            (Frag::One, small),
        ];
        for (mi, (mode, all)) in modes.iter().enumerate() {
            let src_offsets: Vec<u64> = if *all && stride == 1 {
                (0..=elen).collect()
            } else if *all {
                let mut v = src_near.clone();
                v.extend((0..=elen).step_by(stride));
                v.sort();
                v.dedup();
                v
            } else {
                let mut v = src_near.clone();
                for _ in 0..256 {
                    v.push(rng.range(0, elen));
                }
                v.sort();
                v.dedup();
                v
            };
            for (n, &off) in src_offsets.iter().enumerate() {
                let plan = IoPlan {
                    src_frag: *mode,
                    dst_frag: Frag::Whole,
                    faults: vec![Fault {
                        side: Side::Src,
                        kind: FaultKind::Hard(((n + mi) % HARD_KINDS.len()) as u8),
                        at: off,
                        arg: ((n / HARD_KINDS.len()) % NFLAVOURS as usize) as u32,
                    }],
                    tail_seed: off ^ 0x77,
                };
                st.run(&plan);
            }
            let dst_offsets: Vec<u64> = if *all && stride == 1 {
                (0..=rlen).collect()
            } else if *all {
                let mut v = dst_near.clone();
                v.extend((0..=rlen).step_by(stride));
                v.sort();
                v.dedup();
                v
            } else {
                let mut v = dst_near.clone();
                for _ in 0..256 {
                    v.push(rng.range(0, rlen));
                }
                v.sort();
                v.dedup();
                v
            };
            for (n, &off) in dst_offsets.iter().enumerate() {
                let plan = IoPlan {
                    src_frag: Frag::Whole,
                    dst_frag: *mode,
                    faults: vec![Fault {
                        side: Side::Dst,
                        kind: FaultKind::Hard(((n + mi + 3) % HARD_KINDS.len()) as u8),
                        at: off,
                        arg: ((n / HARD_KINDS.len() + 1) % NFLAVOURS as usize) as u32,
                    }],
                    tail_seed: off ^ 0x99,
                };
                st.run(&plan);
            }
        }
        if full && stride == 1 {
            st.res.bump("workloads_with_complete_single_fault_enumeration");
        }

        // --- fragmentation only, both sides
        for k in [1u32, 2, 3, 5, 7, 64, 1000, 65535, 65536, 65537] {
            if k == 1 && !small {
                continue;
            }
            for b in [Frag::Boundary(-1), Frag::Boundary(0), Frag::Boundary(1), Frag::Whole] {
                let plan = IoPlan {
                    src_frag: if k == 1 { Frag::One } else { Frag::Seeded(k) },
                    dst_frag: b,
                    faults: vec![],
                    tail_seed: rng.next_u64(),
                };
                st.run(&plan);
                let plan = IoPlan {
                    src_frag: b,
                    dst_frag: if k == 1 { Frag::One } else { Frag::Seeded(k) },
                    faults: vec![],
                    tail_seed: rng.next_u64(),
                };
                st.run(&plan);
            }
        }

        // --- transient faults at every near-boundary position
        for &off in src_near.iter() {
            for arg in [1u32, 3] {
                st.run(&IoPlan {
                    src_frag: Frag::Whole,
                    dst_frag: Frag::Whole,
                    faults: vec![Fault {
                        side: Side::Src,
                        kind: FaultKind::Interrupted,
                        at: off,
                        arg,
                    }],
                    tail_seed: 0,
                });
            }
            st.run(&IoPlan {
                src_frag: Frag::Whole,
                dst_frag: Frag::Whole,
                faults: vec![Fault {
                    side: Side::Src,
                    kind: FaultKind::Zero,
                    at: off,
                    arg: 0,
                }],
                tail_seed: 0,
            });
        }
        for &off in dst_near.iter() {
            for (kind, arg) in [(FaultKind::Interrupted, 2), (FaultKind::Zero, 0), (FaultKind::Zero, STICKY), (FaultKind::Hard(0), STICKY)] {
                st.run(&IoPlan {
                    src_frag: Frag::Whole,
                    dst_frag: Frag::Whole,
                    faults: vec![Fault {
                        side: Side::Dst,
                        kind,
                        at: off,
                        arg,
                    }],
                    tail_seed: 0,
                });
            }
        }

        // --- seeded multi-fault plans
        let nrand = match ctx.tier {
            Tier::Quick => 5000,
            Tier::Thorough => {
                if elen > 64 * 1024 {
                    4000
                } else {
                    24000
                }
            }
        };
        for _ in 0..(nrand / stride) {
            let nf = rng.range(1, 4) as usize;
            let mut faults = Vec::with_capacity(nf);
            for _ in 0..nf {
                let side = if rng.chance(1, 2) { Side::Src } else { Side::Dst };
                let kind = match rng.below(10) {
                    0..=4 => FaultKind::Hard(rng.below(HARD_KINDS.len() as u64) as u8),
                    5..=7 => FaultKind::Interrupted,
                    _ => FaultKind::Zero,
                };
                let at = match side {
                    Side::Src => random_offset(&mut rng, &src_near, elen),
                    Side::Dst => random_offset(&mut rng, &dst_near, rlen),
                };
                faults.push(Fault {
                    side,
                    kind,
                    at,
                    // burst length for EINTR, error construction flavour for hard errors
                    arg: match kind {
                        FaultKind::Hard(_) => rng.below(NFLAVOURS as u64) as u32 | if rng.chance(1, 4) { STICKY } else { 0 },
                        FaultKind::Zero => if rng.chance(1, 3) { STICKY } else { 0 },
                        FaultKind::Interrupted => rng.range(1, 3) as u32,
                    },
                });
            }
            let plan = IoPlan {
                src_frag: random_frag(&mut rng, small, min_k),
                dst_frag: random_frag(&mut rng, small, min_k),
                faults,
                tail_seed: rng.next_u64(),
            };
            st.run(&plan);
        }

        let mut res = st.res;
        res.digest = st.digest.0;
        if res.samples.is_empty() {
            res.samples.push(J::obj().set("workload", descr));
        } else {
            let s0 = res.samples.remove(0).set("workload_description", descr);
            res.samples.insert(0, s0);
        }
        res
    }

    fn replay(&self, doc: &J) -> ReplayOutcome {
        let file = match workload_from_doc(doc) {
            Ok(f) => f,
            Err(e) => {
                return ReplayOutcome {
                    clause: None,
                    digest: 0,
                    detail: format!("bad replay document: {}", e),
                }
            }
        };
        let plan = match doc.get("plan").ok_or("plan".to_string()).and_then(IoPlan::from_json) {
            Ok(p) => p,
            Err(e) => {
                return ReplayOutcome {
                    clause: None,
                    digest: 0,
                    detail: format!("bad plan: {}", e),
                }
            }
        };
        let prep = match prepare(file) {
            Ok(p) => p,
            Err(r) => {
                return ReplayOutcome {
                    clause: None,
                    digest: 0,
                    detail: format!("workload no longer round-trips fault-free on this tree ({}): not a C13 case", r),
                }
            }
        };
        let out = execute(&prep, &plan);
        let mut verdict = judge(&prep, &out);
        if verdict.is_none() && !out.trace.fired.is_empty() {
            let f = execute(&prep, &IoPlan::clean());
            if f.result != CallResult::Ok || f.accepted != prep.r {
                verdict = Some((
                    "degraded_after_fault".into(),
                    format!("after the faulted run a fault-free call on the same thread returned {:?} with {} of {} bytes", f.result, f.accepted.len(), prep.r.len()),
                ));
            }
        }
        match verdict {
            Some((clause, what)) => ReplayOutcome {
                clause: Some(clause),
                digest: out.digest,
                detail: what,
            },
            None => ReplayOutcome {
                clause: None,
                digest: out.digest,
                detail: format!("oracle satisfied: {}", observed_json(&prep, &out).to_string()),
            },
        }
    }
}

/// the workload bytes of a replay document: inlined hex, or regenerated from the seed
pub fn workload_from_doc(doc: &J) -> Result<Vec<u8>, String> {
    if let Some(h) = doc.get_str("workload_hex") {
        return json::unhex(h);
    }
    let g = doc.get("workload_gen").ok_or("no workload_hex and no workload_gen")?;
    let master = g.get_u64("master_seed").ok_or("master_seed")?;
    let job = g.get_u64("job").ok_or("job")?;
    let tier = Tier::parse(g.get_str("tier").ok_or("tier")?).ok_or("tier")?;
    Ok(job_workload(master, job, tier).file)
}
