//! small helpers shared by the engines

use std::cell::RefCell;

thread_local! {
    static LAST_PANIC: RefCell<String> = const { RefCell::new(String::new()) };
}

/// panics inside the library are expected events of a simulation: keep stderr clean and
/// remember message + location for the violation report
pub fn install_quiet_panic_hook() {
    std::panic::set_hook(Box::new(|info| {
        let msg = if let Some(s) = info.payload().downcast_ref::<String>() {
            s.clone()
        } else if let Some(s) = info.payload().downcast_ref::<&str>() {
            s.to_string()
        } else {
            "<non-string panic payload>".to_string()
        };
        let loc = info
            .location()
            .map(|l| format!("{}:{}", l.file(), l.line()))
            .unwrap_or_default();
        let text = format!("{} @ {}", msg.lines().next().unwrap_or(""), loc);
        let _ = LAST_PANIC.try_with(|c| {
            if let Ok(mut b) = c.try_borrow_mut() {
                *b = text;
            }
        });
    }));
}

pub fn take_last_panic() -> String {
    LAST_PANIC.with(|c| std::mem::take(&mut *c.borrow_mut()))
}

/// shortened panic location: strips absolute prefixes so keys are stable across checkouts
pub fn panic_site(text: &str) -> String {
    match text.rsplit_once(" @ ") {
        Some((_, loc)) => {
            let loc = loc.trim();
            let short = loc.rsplit('/').next().unwrap_or(loc);
            // drop the line number: keys must survive unrelated edits above the site
            short.split(':').next().unwrap_or(short).to_string()
        }
        None => "?".to_string(),
    }
}

pub fn set_rlimit_as(bytes: u64) {
    unsafe {
        let lim = libc::rlimit {
            rlim_cur: bytes as libc::rlim_t,
            rlim_max: bytes as libc::rlim_t,
        };
        libc::setrlimit(libc::RLIMIT_AS, &lim);
    }
}

pub fn env_u64(name: &str) -> Option<u64> {
    std::env::var(name).ok().and_then(|v| v.trim().parse::<u64>().ok())
}
