//! C14 — caller threads under a seeded baton scheduler (engine `sched`).
//!
//! T real OS threads run scripts of public calls. Exactly one thread holds the baton; the
//! holder runs real library code until it reaches a `verif_hooks::point` or a call boundary,
//! where the scheduler (seeded random walk, PCT-style priorities or round robin) picks the next
//! holder and records the choice. Only the choice of who runs is simulated, so a schedule is an
//! exactly replayable list of thread indices while thread-locals and stacks behave as in
//! production. Every result is compared with a sequential reference and with a reference
//! computed in the opposite order in a fresh process.

use crate::engine::*;
use crate::json::{self, J};
use crate::prng::{derive, hash_bytes, Digest, Rng};
use crate::util;
use crate::workload;
use preflate_rs::verif_hooks::{self, Site, SITE_COUNT};
use std::cell::Cell;
use std::collections::HashSet;
use std::panic::{catch_unwind, AssertUnwindSafe};
use std::rc::Rc;
use std::sync::{Arc, Condvar, Mutex};
use std::time::Duration;

pub struct SchedEngine;

const SITE_BOUNDARY: u8 = 200;
const SITE_NOT_STARTED: u8 = 201;
const SITE_IO_READ: u8 = 202;
const SITE_IO_WRITE: u8 = 203;
/// poll interval of parked threads (only used to detect a holder that blocks on something the
/// simulator does not own; never influences a run in which that does not happen)
const FOREIGN_BLOCK_POLL: Duration = Duration::from_millis(20);
/// fallback: no decision for this long although the holder does not look blocked
const FOREIGN_BLOCK_TIMEOUT: Duration = Duration::from_secs(20);

thread_local! {
    /// set by a simulated thread: reader/writer stubs of the harness yield to the scheduler
    static IO_YIELD: std::cell::RefCell<Option<Box<dyn FnMut(u8)>>> = const { std::cell::RefCell::new(None) };
}

fn io_yield(site: u8) {
    let taken = IO_YIELD.with(|c| c.borrow_mut().take());
    if let Some(mut f) = taken {
        f(site);
        IO_YIELD.with(|c| {
            let mut b = c.borrow_mut();
            if b.is_none() {
                *b = Some(f);
            }
        });
    }
}

/// source of `recreated_zlib_chunks` in scheduled runs: every read call is a scheduling point
/// (I/O is where real threads get descheduled)
struct YieldingReader<'a> {
    inner: std::io::Cursor<&'a [u8]>,
}

impl<'a> std::io::Read for YieldingReader<'a> {
    fn read(&mut self, buf: &mut [u8]) -> std::io::Result<usize> {
        io_yield(SITE_IO_READ);
        self.inner.read(buf)
    }
}

struct YieldingWriter {
    out: Vec<u8>,
}

impl std::io::Write for YieldingWriter {
    fn write(&mut self, buf: &[u8]) -> std::io::Result<usize> {
        io_yield(SITE_IO_WRITE);
        self.out.extend_from_slice(buf);
        Ok(buf.len())
    }
    fn flush(&mut self) -> std::io::Result<()> {
        Ok(())
    }
}

/// is the OS thread sleeping (blocked in the kernel)? read from /proc; only consulted by the
/// foreign-blocking monitor
fn os_thread_sleeping(os_tid: i64) -> bool {
    match std::fs::read_to_string(format!("/proc/self/task/{}/stat", os_tid)) {
        Ok(s) => match s.rfind(')') {
            Some(i) => matches!(s[i + 1..].trim_start().chars().next(), Some('S') | Some('D')),
            None => false,
        },
        Err(_) => false,
    }
}

#[derive(Clone, Copy, Debug, PartialEq, Eq, Hash)]
pub enum CallKind {
    Expand(u8),
    Recreate(u8),
    Decompress(u8, bool),
    Recompress(u8),
    CompressZstd(u8),
    DecompressZstd(u8),
    WrapperCompress(u8),
    WrapperDecompress(u8),
    /// error paths: 16 byte output windows, an 8 byte zstd budget, a stream with a reserved block type
    WrapperCompressTiny(u8),
    WrapperDecompressTiny(u8),
    DecompressZstdTiny(u8),
    DecompressGarbage(u8),
    /// reconstruction from correction data whose first byte (the format version) is damaged
    RecompressHostile(u8),
}

impl CallKind {
    fn name(&self) -> &'static str {
        match self {
            CallKind::Expand(_) => "expand_zlib_chunks",
            CallKind::Recreate(_) => "recreated_zlib_chunks",
            CallKind::Decompress(_, true) => "decompress_deflate_stream(verify)",
            CallKind::Decompress(_, false) => "decompress_deflate_stream(noverify)",
            CallKind::Recompress(_) => "recompress_deflate_stream",
            CallKind::CompressZstd(_) => "compress_zstd",
            CallKind::DecompressZstd(_) => "decompress_zstd",
            CallKind::WrapperCompress(_) => "WrapperCompressZip",
            CallKind::WrapperDecompress(_) => "WrapperDecompressZip",
            CallKind::WrapperCompressTiny(_) => "WrapperCompressZip(16 byte window)",
            CallKind::WrapperDecompressTiny(_) => "WrapperDecompressZip(16 byte window)",
            CallKind::DecompressZstdTiny(_) => "decompress_zstd(capacity 8)",
            CallKind::DecompressGarbage(_) => "decompress_deflate_stream(invalid stream)",
            CallKind::RecompressHostile(_) => "recompress_deflate_stream(damaged corrections)",
        }
    }
    fn to_json(&self) -> J {
        let (k, i, v) = match *self {
            CallKind::Expand(i) => ("expand", i, false),
            CallKind::Recreate(i) => ("recreate", i, false),
            CallKind::Decompress(i, v) => ("decompress", i, v),
            CallKind::Recompress(i) => ("recompress", i, false),
            CallKind::CompressZstd(i) => ("compress_zstd", i, false),
            CallKind::DecompressZstd(i) => ("decompress_zstd", i, false),
            CallKind::WrapperCompress(i) => ("wrapper_compress", i, false),
            CallKind::WrapperDecompress(i) => ("wrapper_decompress", i, false),
            CallKind::WrapperCompressTiny(i) => ("wrapper_compress_tiny", i, false),
            CallKind::WrapperDecompressTiny(i) => ("wrapper_decompress_tiny", i, false),
            CallKind::DecompressZstdTiny(i) => ("decompress_zstd_tiny", i, false),
            CallKind::DecompressGarbage(i) => ("decompress_garbage", i, false),
            CallKind::RecompressHostile(i) => ("recompress_hostile", i, false),
        };
        J::Str(format!("{}:{}:{}", k, i, v as u8))
    }
    fn from_json(j: &J) -> Option<CallKind> {
        let s = j.as_str()?;
        let mut it = s.split(':');
        let k = it.next()?;
        let i: u8 = it.next()?.parse().ok()?;
        let v = it.next()? == "1";
        Some(match k {
            "expand" => CallKind::Expand(i),
            "recreate" => CallKind::Recreate(i),
            "decompress" => CallKind::Decompress(i, v),
            "recompress" => CallKind::Recompress(i),
            "compress_zstd" => CallKind::CompressZstd(i),
            "decompress_zstd" => CallKind::DecompressZstd(i),
            "wrapper_compress" => CallKind::WrapperCompress(i),
            "wrapper_decompress" => CallKind::WrapperDecompress(i),
            "wrapper_compress_tiny" => CallKind::WrapperCompressTiny(i),
            "wrapper_decompress_tiny" => CallKind::WrapperDecompressTiny(i),
            "decompress_zstd_tiny" => CallKind::DecompressZstdTiny(i),
            "decompress_garbage" => CallKind::DecompressGarbage(i),
            "recompress_hostile" => CallKind::RecompressHostile(i),
            _ => return None,
        })
    }
}

/// normalised result of a public call
#[derive(Clone, Debug, PartialEq, Eq)]
pub enum CallOutput {
    Ok(Vec<u8>),
    Err(i32),
    Panic,
}

impl CallOutput {
    fn hash(&self) -> u64 {
        let mut d = Digest::default();
        match self {
            CallOutput::Ok(b) => {
                d.u64(1);
                d.bytes(b);
            }
            CallOutput::Err(c) => {
                d.u64(2);
                d.u64(*c as u64);
            }
            CallOutput::Panic => d.u64(3),
        }
        d.0
    }
    fn describe(&self) -> String {
        match self {
            CallOutput::Ok(b) => format!("Ok({} bytes, hash {:016x})", b.len(), hash_bytes(b)),
            CallOutput::Err(c) => format!("Err(exit_code={})", c),
            CallOutput::Panic => "panic".to_string(),
        }
    }
}

fn put(out: &mut Vec<u8>, part: &[u8]) {
    out.extend_from_slice(&(part.len() as u64).to_le_bytes());
    out.extend_from_slice(part);
}

/// inputs shared by all threads of an execution
pub struct Pool {
    pub files: Vec<Arc<Vec<u8>>>,
    pub streams: Vec<Arc<Vec<u8>>>,
    /// derived by the sequential reference phase (None when the producing call did not return Ok)
    pub containers: Vec<Option<Arc<Vec<u8>>>>,
    pub splits: Vec<Option<(Arc<Vec<u8>>, Arc<Vec<u8>>)>>,
    pub blobs: Vec<Option<Arc<Vec<u8>>>>,
    pub wrapped: Vec<Option<Arc<Vec<u8>>>>,
}

const WRAP_SENTINEL: u64 = 0x5e5e_5e5e_5e5e_5e5e;

/// performs one public call (no scheduling here) and normalises the result
pub fn perform(pool: &Pool, call: CallKind) -> CallOutput {
    let r = catch_unwind(AssertUnwindSafe(|| -> Result<Vec<u8>, i32> {
        match call {
            CallKind::Expand(i) => preflate_rs::expand_zlib_chunks(&pool.files[i as usize], 0).map_err(|e| e.exit_code().as_integer_error_code()),
            CallKind::Recreate(i) => {
                let Some(c) = &pool.containers[i as usize] else { return Err(-1000) };
                let mut w = YieldingWriter { out: Vec::new() };
                let mut r = YieldingReader {
                    inner: std::io::Cursor::new(&c[..]),
                };
                preflate_rs::recreated_zlib_chunks(&mut r, &mut w)
                    .map(|_| w.out)
                    .map_err(|e| e.exit_code().as_integer_error_code())
            }
            CallKind::Decompress(i, verify) => preflate_rs::decompress_deflate_stream(&pool.streams[i as usize], verify, 0)
                .map(|r| {
                    let mut out = Vec::new();
                    put(&mut out, &r.plain_text);
                    put(&mut out, &r.prediction_corrections);
                    put(&mut out, &(r.compressed_size as u64).to_le_bytes());
                    let pv = verif_hooks::params_of(&r);
                    for v in pv.iter() {
                        out.extend_from_slice(&v.to_le_bytes());
                    }
                    out
                })
                .map_err(|e| e.exit_code().as_integer_error_code()),
            CallKind::Recompress(i) => {
                let Some((p, c)) = &pool.splits[i as usize] else { return Err(-1000) };
                preflate_rs::recompress_deflate_stream(p, c).map_err(|e| e.exit_code().as_integer_error_code())
            }
            CallKind::CompressZstd(i) => preflate_rs::compress_zstd(&pool.files[i as usize], 0).map_err(|e| e.exit_code().as_integer_error_code()),
            CallKind::DecompressZstd(i) => {
                let Some(b) = &pool.blobs[i as usize] else { return Err(-1000) };
                preflate_rs::decompress_zstd(b, 16 << 20).map_err(|e| e.exit_code().as_integer_error_code())
            }
            CallKind::WrapperCompress(i) => {
                let f = &pool.files[i as usize];
                let mut out = vec![0u8; f.len() * 2 + 65536];
                let mut rs: u64 = WRAP_SENTINEL;
                let st = unsafe { preflate_rs::WrapperCompressZip(f.as_ptr(), f.len() as u64, out.as_mut_ptr(), out.len() as u64, &mut rs) };
                if st == 0 && (rs as usize) <= out.len() {
                    out.truncate(rs as usize);
                    Ok(out)
                } else {
                    Err(st)
                }
            }
            CallKind::WrapperCompressTiny(i) => {
                let f = &pool.files[i as usize];
                let mut out = vec![0u8; 16];
                let mut rs: u64 = WRAP_SENTINEL;
                let st = unsafe { preflate_rs::WrapperCompressZip(f.as_ptr(), f.len() as u64, out.as_mut_ptr(), out.len() as u64, &mut rs) };
                if st == 0 {
                    out.truncate((rs as usize).min(16));
                    Ok(out)
                } else {
                    Err(st)
                }
            }
            CallKind::WrapperDecompressTiny(i) => {
                let Some(b) = &pool.wrapped[i as usize] else { return Err(-1000) };
                let mut out = vec![0u8; 16];
                let mut rs: u64 = WRAP_SENTINEL;
                let st = unsafe { preflate_rs::WrapperDecompressZip(b.as_ptr(), b.len() as u64, out.as_mut_ptr(), out.len() as u64, &mut rs) };
                if st == 0 {
                    out.truncate((rs as usize).min(16));
                    Ok(out)
                } else {
                    Err(st)
                }
            }
            CallKind::DecompressZstdTiny(i) => {
                let Some(b) = &pool.blobs[i as usize] else { return Err(-1000) };
                preflate_rs::decompress_zstd(b, 8).map_err(|e| e.exit_code().as_integer_error_code())
            }
            CallKind::RecompressHostile(i) => {
                let Some((p, c)) = &pool.splits[i as usize] else { return Err(-1000) };
                let mut c: Vec<u8> = c.to_vec();
                if !c.is_empty() {
                    c[0] ^= 0xff;
                }
                preflate_rs::recompress_deflate_stream(p, &c).map_err(|e| e.exit_code().as_integer_error_code())
            }
            CallKind::DecompressGarbage(i) => {
                let mut s = pool.streams[i as usize].to_vec();
                if !s.is_empty() {
                    s[0] = 0xff; // final block of the reserved block type 3
                }
                preflate_rs::decompress_deflate_stream(&s, false, 0).map(|r| r.plain_text).map_err(|e| e.exit_code().as_integer_error_code())
            }
            CallKind::WrapperDecompress(i) => {
                let Some(b) = &pool.wrapped[i as usize] else { return Err(-1000) };
                let mut out = vec![0u8; pool.files[i as usize].len() + 4096];
                let mut rs: u64 = WRAP_SENTINEL;
                let st = unsafe { preflate_rs::WrapperDecompressZip(b.as_ptr(), b.len() as u64, out.as_mut_ptr(), out.len() as u64, &mut rs) };
                if st == 0 && (rs as usize) <= out.len() {
                    out.truncate(rs as usize);
                    Ok(out)
                } else {
                    Err(st)
                }
            }
        }
    }));
    match r {
        Ok(Ok(b)) => CallOutput::Ok(b),
        Ok(Err(c)) => CallOutput::Err(c),
        Err(_) => {
            let _ = util::take_last_panic();
            CallOutput::Panic
        }
    }
}

fn all_calls(pool: &Pool) -> Vec<CallKind> {
    let mut v = Vec::new();
    for i in 0..pool.files.len() as u8 {
        v.push(CallKind::Expand(i));
        v.push(CallKind::CompressZstd(i));
        v.push(CallKind::WrapperCompress(i));
        v.push(CallKind::Recreate(i));
        v.push(CallKind::DecompressZstd(i));
        v.push(CallKind::WrapperDecompress(i));
    }
    for i in 0..pool.streams.len() as u8 {
        v.push(CallKind::Decompress(i, true));
        v.push(CallKind::Decompress(i, false));
        v.push(CallKind::Recompress(i));
    }
    v
}

pub struct Reference {
    pub calls: Vec<CallKind>,
    pub outputs: Vec<CallOutput>,
    /// hook points passed by each call when run alone
    pub hook_counts: Vec<u64>,
}

impl Reference {
    fn index(&self, c: CallKind) -> usize {
        self.calls.iter().position(|x| *x == c).expect("call in reference")
    }
}

fn counted<R>(f: impl FnOnce() -> R) -> (R, u64) {
    let n = Rc::new(Cell::new(0u64));
    let n2 = n.clone();
    let prev = verif_hooks::set_handler(Some(Box::new(move |_s: Site| n2.set(n2.get() + 1))));
    let r = f();
    verif_hooks::set_handler(prev);
    (r, n.get())
}

/// sequential reference phase; fills the derived inputs of the pool in dependency order
pub fn build_reference(pool: &mut Pool) -> Reference {
    let nf = pool.files.len();
    let ns = pool.streams.len();
    pool.containers = vec![None; nf];
    pool.blobs = vec![None; nf];
    pool.wrapped = vec![None; nf];
    pool.splits = vec![None; ns];
    let mut calls = Vec::new();
    let mut outputs = Vec::new();
    let mut hook_counts = Vec::new();
    // producers first
    for i in 0..nf as u8 {
        for c in [CallKind::Expand(i), CallKind::CompressZstd(i), CallKind::WrapperCompress(i)] {
            let (o, n) = counted(|| perform(pool, c));
            if let CallOutput::Ok(b) = &o {
                match c {
                    CallKind::Expand(_) => pool.containers[i as usize] = Some(Arc::new(b.clone())),
                    CallKind::CompressZstd(_) => pool.blobs[i as usize] = Some(Arc::new(b.clone())),
                    _ => pool.wrapped[i as usize] = Some(Arc::new(b.clone())),
                }
            }
            calls.push(c);
            outputs.push(o);
            hook_counts.push(n);
        }
    }
    for i in 0..ns as u8 {
        for v in [true, false] {
            let c = CallKind::Decompress(i, v);
            let (o, n) = counted(|| perform(pool, c));
            if v {
                if let CallOutput::Ok(b) = &o {
                    // unpack plain + corrections
                    let l1 = u64::from_le_bytes(b[0..8].try_into().unwrap()) as usize;
                    let plain = b[8..8 + l1].to_vec();
                    let l2 = u64::from_le_bytes(b[8 + l1..16 + l1].try_into().unwrap()) as usize;
                    let corr = b[16 + l1..16 + l1 + l2].to_vec();
                    pool.splits[i as usize] = Some((Arc::new(plain), Arc::new(corr)));
                }
            }
            calls.push(c);
            outputs.push(o);
            hook_counts.push(n);
        }
    }
    // consumers
    for i in 0..nf as u8 {
        for c in [
            CallKind::Recreate(i),
            CallKind::DecompressZstd(i),
            CallKind::WrapperDecompress(i),
            CallKind::WrapperCompressTiny(i),
            CallKind::WrapperDecompressTiny(i),
            CallKind::DecompressZstdTiny(i),
        ] {
            let (o, n) = counted(|| perform(pool, c));
            calls.push(c);
            outputs.push(o);
            hook_counts.push(n);
        }
    }
    for i in 0..ns as u8 {
        for c in [CallKind::Recompress(i), CallKind::DecompressGarbage(i), CallKind::RecompressHostile(i)] {
            let (o, n) = counted(|| perform(pool, c));
            calls.push(c);
            outputs.push(o);
            hook_counts.push(n);
        }
    }
    Reference {
        calls,
        outputs,
        hook_counts,
    }
}

#[derive(Clone, Copy, Debug, PartialEq, Eq)]
pub enum Policy {
    /// switch with probability p/100 at each yield point
    RandomWalk(u8),
    /// priorities with d change points
    Pct(u8),
    RoundRobin,
    /// never switch voluntarily (sequential baseline)
    Stay,
}

#[derive(Clone, Debug, PartialEq)]
pub struct SchedPlan {
    pub threads: Vec<Vec<CallKind>>,
    pub policy: Policy,
    pub seed: u64,
    /// token-level sites yield only every 1..=decim-th passage (seeded)
    pub decim: u32,
    /// explicit decisions (replay / minimisation): decision i picks explicit[i] if alive; past the end: stay
    pub explicit: Option<Vec<u16>>,
}

impl SchedPlan {
    pub fn to_json(&self) -> J {
        J::obj()
            .set(
                "threads",
                J::Arr(self.threads.iter().map(|t| J::Arr(t.iter().map(|c| c.to_json()).collect())).collect()),
            )
            .set(
                "policy",
                J::Str(match self.policy {
                    Policy::RandomWalk(p) => format!("random_walk:{}", p),
                    Policy::Pct(d) => format!("pct:{}", d),
                    Policy::RoundRobin => "round_robin:0".into(),
                    Policy::Stay => "stay:0".into(),
                }),
            )
            .set("seed", J::u(self.seed))
            .set("decim", J::u(self.decim as u64))
            .set(
                "explicit",
                match &self.explicit {
                    Some(v) => J::Arr(v.iter().map(|x| J::u(*x as u64)).collect()),
                    None => J::Null,
                },
            )
    }
    pub fn from_json(j: &J) -> Result<SchedPlan, String> {
        let mut threads = Vec::new();
        for t in j.get_arr("threads").ok_or("threads")? {
            let mut calls = Vec::new();
            for c in t.as_arr().ok_or("thread")? {
                calls.push(CallKind::from_json(c).ok_or("call")?);
            }
            threads.push(calls);
        }
        let p = j.get_str("policy").ok_or("policy")?;
        let (name, arg) = p.split_once(':').ok_or("policy")?;
        let arg: u8 = arg.parse().map_err(|_| "policy arg")?;
        let policy = match name {
            "random_walk" => Policy::RandomWalk(arg),
            "pct" => Policy::Pct(arg),
            "round_robin" => Policy::RoundRobin,
            "stay" => Policy::Stay,
            _ => return Err("policy".into()),
        };
        Ok(SchedPlan {
            threads,
            policy,
            seed: j.get_u64("seed").ok_or("seed")?,
            decim: j.get_u64("decim").ok_or("decim")? as u32,
            explicit: match j.get("explicit") {
                Some(J::Arr(a)) => Some(a.iter().filter_map(|x| x.as_u64().map(|v| v as u16)).collect()),
                _ => None,
            },
        })
    }
}

struct State {
    current: usize,
    alive: Vec<bool>,
    parked_site: Vec<u8>,
    rng: Rng,
    policy: Policy,
    prio: Vec<i64>,
    change_points: Vec<u64>,
    low_water: i64,
    decisions: u64,
    schedule: Vec<u16>,
    explicit: Option<Vec<u16>>,
    switches: u64,
    pairs: HashSet<(u8, u8)>,
    foreign_blocking: bool,
    os_tid: Vec<i64>,
    /// threads currently parked inside wait_for_baton (only they can act as monitor)
    parked: Vec<bool>,
    /// threads found blocked on something the simulator does not own; not schedulable until
    /// they reach a yield point again
    blocked: Vec<bool>,
}

struct Shared {
    m: Mutex<State>,
    cv: Condvar,
}

impl State {
    fn decide(&mut self, me: usize) -> usize {
        let n = self.alive.len();
        let idx = self.decisions;
        self.decisions += 1;
        let me_alive = self.alive[me];
        let runnable = |st: &State, t: usize| st.alive[t] && !st.blocked[t];
        let fallback = |st: &State| -> usize {
            if me_alive {
                me
            } else {
                (0..n)
                    .map(|k| (me + 1 + k) % n)
                    .find(|&t| runnable(st, t))
                    .or_else(|| (0..n).map(|k| (me + 1 + k) % n).find(|&t| st.alive[t]))
                    .unwrap_or(me)
            }
        };
        if let Some(ex) = &self.explicit {
            if (idx as usize) < ex.len() {
                let t = ex[idx as usize] as usize;
                if t < n && runnable(self, t) {
                    return t;
                }
            }
            return fallback(self);
        }
        let others: Vec<usize> = (0..n).filter(|&t| t != me && runnable(self, t)).collect();
        if others.is_empty() {
            return fallback(self);
        }
        match self.policy {
            Policy::Stay => fallback(self),
            Policy::RoundRobin => (0..n).map(|k| (me + 1 + k) % n).find(|&t| runnable(self, t)).unwrap_or(me),
            Policy::RandomWalk(p) => {
                if !me_alive || self.rng.chance(p as u64, 100) {
                    others[self.rng.usize_below(others.len())]
                } else {
                    me
                }
            }
            Policy::Pct(_) => {
                if self.change_points.contains(&idx) && me_alive {
                    self.low_water -= 1;
                    self.prio[me] = self.low_water;
                }
                (0..n).filter(|&t| runnable(self, t)).max_by_key(|&t| self.prio[t]).unwrap_or(me)
            }
        }
    }
}

impl Shared {
    fn wait_for_baton<'a>(&'a self, mut st: std::sync::MutexGuard<'a, State>, tid: usize) -> std::sync::MutexGuard<'a, State> {
        let mut seen = st.decisions;
        let mut sleeping_polls = 0u32;
        let mut waited = Duration::from_millis(0);
        loop {
            if st.current == tid {
                st.parked[tid] = false;
                return st;
            }
            st.parked[tid] = true;
            let (g, to) = self.cv.wait_timeout(st, FOREIGN_BLOCK_POLL).unwrap();
            st = g;
            if st.current == tid {
                st.parked[tid] = false;
                return st;
            }
            if !to.timed_out() {
                continue;
            }
            if st.decisions != seen {
                seen = st.decisions;
                sleeping_polls = 0;
                waited = Duration::from_millis(0);
                continue;
            }
            waited += FOREIGN_BLOCK_POLL;
            // only the lowest thread that is really parked here acts as monitor (a thread that
            // itself blocks inside the library is alive but cannot poll)
            let lowest = (0..st.alive.len()).find(|&t| st.alive[t] && st.parked[t] && t != st.current);
            if lowest != Some(tid) {
                continue;
            }
            let holder = st.current;
            let holder_tid = st.os_tid.get(holder).copied().unwrap_or(0);
            if holder_tid != 0 && os_thread_sleeping(holder_tid) {
                sleeping_polls += 1;
            } else {
                sleeping_polls = 0;
            }
            if sleeping_polls >= 3 || waited >= FOREIGN_BLOCK_TIMEOUT {
                // The holder made no decision and sleeps in the kernel: it blocks on something the
                // simulator does not own (a lock inside the library that a parked thread holds).
                // The monitor takes the baton over; determinism of this run is no longer claimed.
                st.foreign_blocking = true;
                st.blocked[holder] = true;
                st.current = tid;
                st.parked[tid] = false;
                return st;
            }
        }
    }

    fn yield_point(&self, tid: usize, site: u8) {
        let mut st = self.m.lock().unwrap();
        st.blocked[tid] = false;
        if st.current != tid {
            // we lost the baton to the foreign-blocking monitor; wait for our turn
            st.parked_site[tid] = site;
            let _st = self.wait_for_baton(st, tid);
            return;
        }
        let next = st.decide(tid);
        st.schedule.push(next as u16);
        if next != tid {
            st.switches += 1;
            let parked = st.parked_site[next];
            st.pairs.insert((parked, site));
            st.parked_site[tid] = site;
            st.current = next;
            self.cv.notify_all();
            let _st = self.wait_for_baton(st, tid);
        }
    }

    fn finish(&self, tid: usize) {
        let mut st = self.m.lock().unwrap();
        st.alive[tid] = false;
        st.blocked[tid] = false;
        if st.current == tid && st.alive.iter().any(|a| *a) {
            let next = st.decide(tid);
            st.schedule.push(next as u16);
            st.current = next;
        }
        self.cv.notify_all();
    }
}

struct FinishGuard<'a> {
    shared: &'a Shared,
    tid: usize,
}

impl<'a> Drop for FinishGuard<'a> {
    fn drop(&mut self) {
        verif_hooks::set_handler(None);
        IO_YIELD.with(|c| *c.borrow_mut() = None);
        self.shared.finish(self.tid);
    }
}

pub struct ExecOutcome {
    /// per thread, per call: None = equals reference, Some(observed) otherwise
    pub mismatches: Vec<(usize, usize, CallKind, CallOutput, bool)>,
    pub schedule: Vec<u16>,
    pub switches: u64,
    pub decisions: u64,
    pub hook_points: u64,
    pub pairs: Vec<(u8, u8)>,
    pub foreign_blocking: bool,
    pub digest: u64,
}

fn is_token_site(s: Site) -> bool {
    matches!(s, Site::PredictToken | Site::RecreateToken)
}

pub fn execute(pool: &Pool, reference: &Reference, plan: &SchedPlan) -> ExecOutcome {
    let t = plan.threads.len();
    let mut rng = Rng::new(plan.seed);
    let mut prio: Vec<i64> = (0..t as i64).collect();
    // seeded permutation of priorities
    for i in (1..t).rev() {
        let j = rng.usize_below(i + 1);
        prio.swap(i, j);
    }
    let est: u64 = plan
        .threads
        .iter()
        .flatten()
        .map(|c| reference.hook_counts[reference.index(*c)] / (plan.decim.max(1) as u64 / 2 + 1) + 2)
        .sum::<u64>()
        .max(4);
    let d = match plan.policy {
        Policy::Pct(d) => d as usize,
        _ => 0,
    };
    let change_points: Vec<u64> = (0..d).map(|_| rng.below(est)).collect();
    let first = rng.usize_below(t);
    let shared = Shared {
        m: Mutex::new(State {
            current: first,
            alive: vec![true; t],
            parked_site: vec![SITE_NOT_STARTED; t],
            rng: rng.fork(),
            policy: plan.policy,
            prio,
            change_points,
            low_water: -1,
            decisions: 0,
            schedule: vec![first as u16],
            explicit: plan.explicit.clone(),
            switches: 0,
            pairs: HashSet::new(),
            foreign_blocking: false,
            os_tid: vec![0; t],
            parked: vec![false; t],
            blocked: vec![false; t],
        }),
        cv: Condvar::new(),
    };
    if let Some(ex) = &plan.explicit {
        // the first entry of an explicit schedule is the initial holder
        let mut st = shared.m.lock().unwrap();
        if let Some(&f) = ex.first() {
            if (f as usize) < t {
                st.current = f as usize;
                st.schedule[0] = f;
            }
        }
        st.decisions = 1;
    } else {
        shared.m.lock().unwrap().decisions = 1;
    }
    let results: Mutex<Vec<(usize, usize, CallKind, CallOutput, bool)>> = Mutex::new(Vec::new());
    let hook_total = std::sync::atomic::AtomicU64::new(0);
    let result_digests: Mutex<Vec<(usize, usize, u64)>> = Mutex::new(Vec::new());

    std::thread::scope(|scope| {
        for tid in 0..t {
            let shared = &shared;
            let results = &results;
            let result_digests = &result_digests;
            let hook_total = &hook_total;
            let script = &plan.threads[tid];
            let seed = plan.seed;
            let decim = plan.decim.max(1);
            std::thread::Builder::new()
                .stack_size(4 << 20)
                .spawn_scoped(scope, move || {
                    {
                        let mut st = shared.m.lock().unwrap();
                        st.os_tid[tid] = unsafe { libc::syscall(libc::SYS_gettid) } as i64;
                        let _st = shared.wait_for_baton(st, tid);
                    }
                    let _guard = FinishGuard { shared, tid };
                    let shared_ptr0: *const Shared = shared;
                    IO_YIELD.with(|c| {
                        *c.borrow_mut() = Some(Box::new(move |site: u8| {
                            // SAFETY: removed in FinishGuard::drop before `shared` goes out of scope
                            let sh = unsafe { &*shared_ptr0 };
                            sh.yield_point(tid, site);
                        }))
                    });
                    // per-call hook accounting shared with the handler
                    let acct = Rc::new(Cell::new((0u64, u64::MAX)));
                    let acct2 = acct.clone();
                    let mut trng = Rng::new(seed ^ (0x7157 + tid as u64).wrapping_mul(crate::prng::PHI));
                    let mut countdown = trng.range(1, decim as u64);
                    let shared_ptr: *const Shared = shared;
                    verif_hooks::set_handler(Some(Box::new(move |site: Site| {
                        let (n, budget) = acct2.get();
                        acct2.set((n + 1, budget));
                        if n + 1 > budget {
                            panic!("simulation: runaway call (hook budget exceeded)");
                        }
                        if is_token_site(site) {
                            countdown -= 1;
                            if countdown > 0 {
                                return;
                            }
                            countdown = trng.range(1, decim as u64);
                        }
                        // SAFETY: the handler is removed (FinishGuard) before `shared` goes out of scope
                        let sh = unsafe { &*shared_ptr };
                        sh.yield_point(tid, site as u8);
                    })));
                    for (ci, call) in script.iter().enumerate() {
                        let ridx = reference.index(*call);
                        let budget = 3 * reference.hook_counts[ridx] + 64;
                        acct.set((0, budget));
                        let out = perform(pool, *call);
                        let (n, _) = acct.get();
                        hook_total.fetch_add(n, std::sync::atomic::Ordering::Relaxed);
                        acct.set((0, u64::MAX));
                        let runaway = n > budget;
                        result_digests.lock().unwrap().push((tid, ci, out.hash()));
                        if out != reference.outputs[ridx] {
                            results.lock().unwrap().push((tid, ci, *call, out, runaway));
                        }
                        shared.yield_point(tid, SITE_BOUNDARY);
                    }
                })
                .expect("spawn sim thread");
        }
    });

    let st = shared.m.into_inner().unwrap();
    let mut mismatches = results.into_inner().unwrap();
    mismatches.sort_by_key(|m| (m.0, m.1));
    let mut rd = result_digests.into_inner().unwrap();
    rd.sort();
    let mut d = Digest::default();
    for x in st.schedule.iter() {
        d.u64(*x as u64);
    }
    for (a, b, h) in rd {
        d.u64(a as u64);
        d.u64(b as u64);
        d.u64(h);
    }
    let mut pairs: Vec<(u8, u8)> = st.pairs.into_iter().collect();
    pairs.sort();
    ExecOutcome {
        mismatches,
        schedule: st.schedule,
        switches: st.switches,
        decisions: st.decisions,
        hook_points: hook_total.load(std::sync::atomic::Ordering::Relaxed),
        pairs,
        foreign_blocking: st.foreign_blocking,
        digest: d.0,
    }
}

fn site_name(s: u8) -> String {
    match s {
        SITE_BOUNDARY => "CallBoundary".into(),
        SITE_NOT_STARTED => "NotStarted".into(),
        SITE_IO_READ => "SourceRead".into(),
        SITE_IO_WRITE => "DestinationWrite".into(),
        x if (x as usize) < SITE_COUNT => {
            const ALL: [Site; SITE_COUNT] = [
                Site::ParseBlock,
                Site::PredictBlocksBlock,
                Site::RecreateBlocksBlock,
                Site::PredictToken,
                Site::RecreateToken,
                Site::EstimatorBlock,
                Site::HashTableBoxed,
                Site::DepthTableBoxed,
                Site::ScanSignature,
                Site::ExpandChunk,
                Site::ReadChunkEntry,
                Site::ReadChunkLiteralPiece,
                Site::ReadChunkBeforeWrite,
                Site::RecreateIdatChunk,
                Site::WrapperCompressEnter,
                Site::WrapperCompressExit,
                Site::WrapperDecompressEnter,
                Site::WrapperDecompressExit,
            ];
            format!("{:?}", ALL[x as usize])
        }
        _ => "?".into(),
    }
}

pub fn gen_pool(master: u64, job: u64, tier: Tier) -> Pool {
    let mut rng = Rng::new(derive(master ^ 0x5c4ed, job));
    let (nf, ns) = match tier {
        Tier::Quick => (2, 2),
        Tier::Thorough => (rng.range(2, 3) as usize, rng.range(2, 4) as usize),
    };
    let sc = workload::SizeClass {
        min_plain: 1100,
        max_plain: if tier == Tier::Quick { 5000 } else { 12000 },
        max_members: 2,
    };
    let mut files = Vec::new();
    for i in 0..nf {
        if i == 0 && job % 3 == 0 {
            // a signature-dense file: thousands of look-alike headers the scanner has to probe
            // and reject, then one real member (stresses anything that is counted or cached per probe)
            let n = *rng.pick(&[1500usize, 5000, 9000, 14000]);
            let sig: &[u8] = match rng.below(4) {
                0 => &[0x78, 0x9c, 0x06, 0x00],
                1 => &[0x1f, 0x8b, 0x08, 0x00],
                2 => &[0x78, 0x01, 0xff, 0x07],
                _ => &[0x50, 0x4b, 0x03, 0x04],
            };
            let mut f = Vec::with_capacity(n * 4 + 8192);
            for _ in 0..n {
                f.extend_from_slice(sig);
            }
            let plain = workload::gen_plaintext(&mut rng, 2000);
            let raw = workload::Compressor::random(&mut rng).compress(&plain);
            f.extend_from_slice(&workload::wrap(&mut rng, &workload::Wrapper::Zlib(2), &raw, &plain));
            files.push(Arc::new(f));
            continue;
        }
        if tier == Tier::Thorough && job % 50 == 7 && i == 0 {
            // an input whose expanded form exceeds 4 MiB (anything that switches behaviour, or
            // keeps state, above a size threshold)
            let mut f = workload::gen_file_with_expanded_size((4 << 20) + rng.range(1000, 900_000) as usize);
            f.extend_from_slice(&workload::gen_file(&mut rng, sc).file);
            files.push(Arc::new(f));
            continue;
        }
        if job % 4 == 1 {
            // a member plus a literal stretch of more than 64 KiB (several passes of the literal copy loop)
            let mut f = workload::gen_file(&mut rng, sc).file;
            let n = rng.range(70_000, 210_000) as usize;
            let start = f.len();
            f.resize(start + n, 0);
            rng.fill(&mut f[start..]);
            for b in f[start..].iter_mut() {
                *b = 0x20 + (*b % 0x50);
                if *b == b'P' || *b == b'I' || *b == 0x78 {
                    *b = b'.';
                }
            }
            files.push(Arc::new(f));
            continue;
        }
        files.push(Arc::new(workload::gen_file(&mut rng, sc).file));
    }
    if job % 2 == 0 {
        // a file that begins directly with a member: its signature sits in the first bytes of the
        // buffer (where word-at-a-time scanners have their unaligned prefix)
        let plain = workload::gen_plaintext(&mut rng, 1500);
        let raw = workload::Compressor::random(&mut rng).compress(&plain);
        let w = match rng.below(3) {
            0 => workload::Wrapper::Zlib(rng.below(4) as u8),
            1 => workload::Wrapper::Gzip(0),
            _ => workload::Wrapper::Zip(5, 0),
        };
        let mut f = workload::wrap(&mut rng, &w, &raw, &plain);
        f.extend_from_slice(b" trailing bytes after the member ");
        files.push(Arc::new(f));
    }
    let mut streams = Vec::new();
    for _ in 0..ns {
        let (_c, _p, raw) = workload::gen_stream(&mut rng, 600, sc.max_plain);
        streams.push(Arc::new(raw));
    }
    Pool {
        files,
        streams,
        containers: Vec::new(),
        splits: Vec::new(),
        blobs: Vec::new(),
        wrapped: Vec::new(),
    }
}

fn pool_to_json(pool: &Pool) -> J {
    J::obj()
        .set("files", J::Arr(pool.files.iter().map(|f| J::Str(json::hex(f))).collect()))
        .set("streams", J::Arr(pool.streams.iter().map(|f| J::Str(json::hex(f))).collect()))
}

fn pool_from_json(j: &J) -> Result<Pool, String> {
    let mut files = Vec::new();
    for f in j.get_arr("files").ok_or("files")? {
        files.push(Arc::new(json::unhex(f.as_str().ok_or("file")?)?));
    }
    let mut streams = Vec::new();
    for f in j.get_arr("streams").ok_or("streams")? {
        streams.push(Arc::new(json::unhex(f.as_str().ok_or("stream")?)?));
    }
    Ok(Pool {
        files,
        streams,
        containers: Vec::new(),
        splits: Vec::new(),
        blobs: Vec::new(),
        wrapped: Vec::new(),
    })
}

fn pool_hash(pool: &Pool) -> u64 {
    let mut d = Digest::default();
    for f in pool.files.iter() {
        d.bytes(f);
    }
    for f in pool.streams.iter() {
        d.bytes(f);
    }
    d.0
}

fn gen_plan(rng: &mut Rng, reference: &Reference, tier: Tier, exec_no: u64, big_literals: bool) -> SchedPlan {
    if big_literals && (exec_no % 2 == 1 || exec_no >= 1000) {
        // targeted: several threads copying literals of more than 64 KiB at the same time
        // (the literal copy loop is the only multi-pass loop of the reconstruction side that
        // touches the caller's reader and writer)
        let t = rng.range(3, 4) as usize;
        let pool_calls: Vec<CallKind> = reference
            .calls
            .iter()
            .cloned()
            .filter(|c| matches!(c, CallKind::Recreate(_) | CallKind::DecompressZstd(_) | CallKind::WrapperDecompress(_)))
            .collect();
        let recreate_calls: Vec<CallKind> = pool_calls.iter().cloned().filter(|c| matches!(c, CallKind::Recreate(_))).collect();
        if !recreate_calls.is_empty() {
            let mut threads: Vec<Vec<CallKind>> = vec![Vec::new(); t];
            for th in threads.iter_mut() {
                for k in 0..4 {
                    th.push(if k % 2 == 0 { *rng.pick(&recreate_calls) } else { *rng.pick(&pool_calls) });
                }
            }
            return SchedPlan {
                threads,
                policy: Policy::RandomWalk(*rng.pick(&[30u8, 50, 70])),
                seed: rng.next_u64(),
                decim: 256,
                explicit: None,
            };
        }
    }
    let t = match tier {
        Tier::Quick => {
            if exec_no % 5 == 0 {
                1
            } else {
                rng.range(2, 4) as usize
            }
        }
        Tier::Thorough => match exec_no % 8 {
            0 => 1,
            7 => rng.range(8, 16) as usize,
            _ => rng.range(2, 6) as usize,
        },
    };
    // every (function, input) is called at least twice per execution, spread over the threads
    let mut bag: Vec<CallKind> = Vec::new();
    let per_thread = rng.range(2, 5) as usize;
    let wanted = (t * per_thread).max(4);
    // swarm: each execution draws its calls from a seeded subset of the entry-point families
    let family = rng.below(4);
    let mut order: Vec<CallKind> = reference
        .calls
        .iter()
        .cloned()
        .filter(|c| match family {
            // reconstruction side only
            1 => matches!(
                c,
                CallKind::Recreate(_) | CallKind::DecompressZstd(_) | CallKind::WrapperDecompress(_) | CallKind::Recompress(_) | CallKind::WrapperDecompressTiny(_) | CallKind::DecompressZstdTiny(_) | CallKind::RecompressHostile(_)
            ),
            // analysis side only
            2 => matches!(
                c,
                CallKind::Expand(_) | CallKind::CompressZstd(_) | CallKind::WrapperCompress(_) | CallKind::Decompress(..) | CallKind::WrapperCompressTiny(_) | CallKind::DecompressGarbage(_)
            ),
            // the C ABI and its error paths
            3 => matches!(
                c,
                CallKind::WrapperCompress(_) | CallKind::WrapperDecompress(_) | CallKind::WrapperCompressTiny(_) | CallKind::WrapperDecompressTiny(_) | CallKind::Recreate(_)
            ),
            _ => true,
        })
        .collect();
    if order.is_empty() {
        order = reference.calls.clone();
    }
    // seeded shuffle
    for i in (1..order.len()).rev() {
        let j = rng.usize_below(i + 1);
        order.swap(i, j);
    }
    let distinct = (wanted / 2).max(1).min(order.len());
    for c in order.iter().take(distinct) {
        bag.push(*c);
        bag.push(*c);
    }
    while bag.len() < wanted {
        bag.push(order[rng.usize_below(order.len())]);
    }
    for i in (1..bag.len()).rev() {
        let j = rng.usize_below(i + 1);
        bag.swap(i, j);
    }
    let mut threads: Vec<Vec<CallKind>> = vec![Vec::new(); t];
    for (i, c) in bag.into_iter().enumerate() {
        threads[i % t].push(c);
    }
    let policy = match rng.below(10) {
        0..=4 => Policy::RandomWalk(*rng.pick(&[5u8, 20, 50, 90])),
        5..=7 => Policy::Pct(rng.range(1, 3) as u8),
        _ => Policy::RoundRobin,
    };
    SchedPlan {
        threads,
        policy,
        seed: rng.next_u64(),
        decim: *rng.pick(&[1u32, 4, 16, 64, 256]),
        explicit: None,
    }
}

fn observed_json(reference: &Reference, out: &ExecOutcome) -> J {
    J::obj()
        .set("context_switches", J::u(out.switches))
        .set("decisions", J::u(out.decisions))
        .set("hook_points", J::u(out.hook_points))
        .set("foreign_blocking", J::Bool(out.foreign_blocking))
        .set(
            "mismatches",
            J::Arr(
                out.mismatches
                    .iter()
                    .take(6)
                    .map(|(tid, ci, call, got, runaway)| {
                        J::obj()
                            .set("thread", J::u(*tid as u64))
                            .set("call_index", J::u(*ci as u64))
                            .set("call", call.to_json())
                            .set("function", J::str(call.name()))
                            .set("observed", J::Str(got.describe()))
                            .set("reference", J::Str(reference.outputs[reference.index(*call)].describe()))
                            .set("runaway_guard_fired", J::Bool(*runaway))
                    })
                    .collect(),
            ),
        )
}

const HISTORY_CALLS: usize = 200;

/// The life of a long-running caller thread before the calls that are compared: `n` analyses and
/// reconstructions of six small generated streams (part of the replay file through its seed).
fn history_calls(seed: u64, n: usize) {
    let mut hrng = Rng::new(seed);
    let small: Vec<Vec<u8>> = (0..6)
        .map(|_| {
            let (_c, _p, raw) = workload::gen_stream(&mut hrng, 60, 700);
            raw
        })
        .collect();
    for k in 0..n {
        let s = &small[k % small.len()];
        let _ = catch_unwind(AssertUnwindSafe(|| {
            preflate_rs::decompress_deflate_stream(s, k % 2 == 0, 0).map(|r| preflate_rs::recompress_deflate_stream(&r.plain_text, &r.prediction_corrections))
        }));
    }
    let _ = util::take_last_panic();
}

fn classify(out: &ExecOutcome) -> Option<(String, CallKind)> {
    let (_, _, call, got, runaway) = out.mismatches.first()?;
    let clause = if *runaway {
        "runaway_call"
    } else if matches!(got, CallOutput::Panic) {
        "panic_under_schedule"
    } else {
        "result_differs_from_reference"
    };
    Some((clause.to_string(), *call))
}

/// keep the violation while making the schedule as sequential as possible
fn minimise(pool: &Pool, reference: &Reference, plan: &SchedPlan, out: &ExecOutcome, clause: &str) -> (SchedPlan, ExecOutcome) {
    // the budget is counted in simulated steps (hook points + decisions), not in wall-clock and not
    // in executions: pools with a signature-dense file cost a hundred times more per execution
    let mut steps_left: i64 = 12_000_000;
    let mut execs_left: i32 = 120;
    let mut run = |p: &SchedPlan, steps_left: &mut i64, execs_left: &mut i32| -> Option<ExecOutcome> {
        if *steps_left <= 0 || *execs_left <= 0 {
            return None;
        }
        let o = execute(pool, reference, p);
        *steps_left -= (o.hook_points + o.decisions) as i64 + 1;
        *execs_left -= 1;
        Some(o)
    };
    let same = |o: &ExecOutcome| classify(o).map(|c| c.0) == Some(clause.to_string());
    let mut best_plan = plan.clone();
    best_plan.explicit = Some(out.schedule.clone());
    let mut best_out = match run(&best_plan, &mut steps_left, &mut execs_left) {
        Some(o) if same(&o) => o,
        // explicit replay of the recorded schedule must reproduce; if not, report the seeded plan
        _ => return (plan.clone(), execute(pool, reference, plan)),
    };
    // 1. truncate the schedule (stay on the current thread afterwards)
    let mut len = best_out.schedule.len();
    while len > 1 {
        let cut = len / 2;
        let mut cand = best_plan.clone();
        cand.explicit = Some(best_out.schedule[..cut].to_vec());
        match run(&cand, &mut steps_left, &mut execs_left) {
            Some(o) if same(&o) => {
                best_plan = cand;
                best_out = o;
                len = cut;
            }
            _ => break,
        }
    }
    // 2. drop calls from the end of each script
    let mut changed = true;
    while changed {
        changed = false;
        for t in 0..best_plan.threads.len() {
            if best_plan.threads[t].len() <= 1 {
                continue;
            }
            let mut cand = best_plan.clone();
            cand.threads[t].pop();
            match run(&cand, &mut steps_left, &mut execs_left) {
                Some(o) if same(&o) => {
                    best_plan = cand;
                    best_out = o;
                    changed = true;
                }
                Some(_) => {}
                None => {
                    changed = false;
                    break;
                }
            }
        }
    }
    // 3. remove individual context switches (later ones first): "stay on the current thread"
    let mut i = best_out.schedule.len();
    while i > 1 {
        i -= 1;
        let sched = best_plan.explicit.clone().unwrap_or_default();
        if i >= sched.len() || sched[i] == sched[i - 1] {
            continue;
        }
        let mut cand = best_plan.clone();
        let mut ex = sched.clone();
        ex[i] = ex[i - 1];
        cand.explicit = Some(ex);
        match run(&cand, &mut steps_left, &mut execs_left) {
            Some(o) => {
                if same(&o) && o.switches < best_out.switches {
                    best_plan = cand;
                    best_plan.explicit = Some(o.schedule.clone());
                    i = i.min(o.schedule.len());
                    best_out = o;
                }
            }
            None => break,
        }
    }
    (best_plan, best_out)
}

fn replay_doc(pool: &Pool, gen: (u64, u64, &str), plan: &SchedPlan) -> J {
    J::obj()
        .set("engine", J::str("sched"))
        .set("workload_hash", J::Str(format!("{:016x}", pool_hash(pool))))
        .set("plan_key", J::Str(format!("{:016x}", hash_bytes(plan.to_json().to_string().as_bytes()))))
        .set("plan", plan.to_json())
        .set("workload_gen", J::obj().set("master_seed", J::u(gen.0)).set("job", J::u(gen.1)).set("tier", J::str(gen.2)))
}

/// reference hashes computed in the opposite order (used by the fresh-process comparison)
fn reverse_order_hashes(pool: &mut Pool) -> Vec<(String, u64)> {
    // derived inputs first (forward), so that consumers have their inputs ...
    let reference = build_reference(pool);
    // ... then every call again in reverse order, each compared later by the parent
    let mut v = Vec::new();
    for c in reference.calls.iter().rev() {
        let o = perform(pool, *c);
        v.push((c.to_json().as_str().unwrap().to_string(), o.hash()));
    }
    v
}

pub fn aux_reference_process(args: &[String]) -> i32 {
    // simcheck aux C14 <master> <job> <tier>  -> prints "@@ REF <call> <hash>" on stderr
    util::install_quiet_panic_hook();
    let (Some(m), Some(j), Some(t)) = (
        args.first().and_then(|s| s.parse::<u64>().ok()),
        args.get(1).and_then(|s| s.parse::<u64>().ok()),
        args.get(2).and_then(|s| Tier::parse(s)),
    ) else {
        return 2;
    };
    let mut pool = if let Some(path) = args.get(3) {
        match std::fs::read_to_string(path).map_err(|e| e.to_string()).and_then(|s| json::parse(&s)).and_then(|j| pool_from_json(j.get("pool").unwrap_or(&J::Null))) {
            Ok(p) => p,
            Err(_) => return 2,
        }
    } else {
        gen_pool(m, j, t)
    };
    for (c, h) in reverse_order_hashes(&mut pool) {
        eprintln!("@@ REF {} {:016x}", c, h);
    }
    0
}

fn fresh_process_hashes(master: u64, job: u64, tier: Tier, pool_file: Option<&str>) -> Result<Vec<(String, u64)>, String> {
    let exe = std::env::current_exe().map_err(|e| e.to_string())?;
    let mut cmd = std::process::Command::new(exe);
    cmd.arg("aux").arg("C14").arg(master.to_string()).arg(job.to_string()).arg(tier.name());
    if let Some(p) = pool_file {
        cmd.arg(p);
    }
    let null = std::fs::OpenOptions::new().write(true).open("/dev/null").map_err(|e| e.to_string())?;
    let out = cmd
        .stdin(std::process::Stdio::null())
        .stdout(std::process::Stdio::from(null))
        .stderr(std::process::Stdio::piped())
        .output()
        .map_err(|e| e.to_string())?;
    if !out.status.success() {
        return Err(format!("reference process failed: {:?}", out.status));
    }
    let text = String::from_utf8_lossy(&out.stderr);
    let mut v = Vec::new();
    for l in text.lines() {
        if let Some(rest) = l.strip_prefix("@@ REF ") {
            let mut it = rest.split(' ');
            if let (Some(c), Some(h)) = (it.next(), it.next()) {
                if let Ok(h) = u64::from_str_radix(h, 16) {
                    v.push((c.to_string(), h));
                }
            }
        }
    }
    Ok(v)
}

impl Engine for SchedEngine {
    fn info(&self) -> EngineInfo {
        EngineInfo {
            property: "C14",
            name: "simstore sched",
            level: "exploration",
            rule: "per job: a pool of generated files and raw streams; sequential reference of every (function, input) once forward in this process and once in the opposite order in a fresh child process (ASLR, allocator, RandomState differ); then seeded executions of 1-4 (quick) / 1-16 (thorough) real threads with scripts in which every chosen (function, input) occurs at least twice, under a baton scheduler (random walk with p in {5,20,50,90}%, PCT with 1-3 priority change points, round robin) that decides at every hook point (token-level points decimated by a seeded factor) and call boundary who runs next. Every result must be byte-identical to the reference. Distinct = distinct recorded schedules (thread index per decision) per pool; non-trivial = at least one context switch.",
            real_components: &[
                "preflate-rs working tree: all eight public entry points incl. both C wrappers, called from real OS threads (thread-locals and stacks as in production)",
                "zstd, cabac, crc32fast",
            ],
            stub_components: &[
                "OS scheduler: baton scheduler owned by the harness (only the choice of who runs is simulated)",
                "second process: a fresh child computing the references in the opposite order",
            ],
            assumptions: &[
                "context switches happen only at hook points and call boundaries: a race window that contains no hook point is not interleaved by this engine (the Miri arm of the thorough tier preempts at basic-block granularity)",
                "errors are compared by exit code",
                "a holder that blocks on something the simulator does not own is detected after 5 s, the run is marked foreign_blocking (never an alarm by itself)",
            ],
            state_measure: "distinct schedules; distinct ordered pairs (site where the resumed thread was parked, site where the running thread yields) = preemption pairs: see abstract_states",
        }
    }

    fn jobs(&self, tier: Tier) -> u64 {
        match tier {
            Tier::Quick => 64,
            Tier::Thorough => 800,
        }
    }

    fn expected_probes(&self, _tier: Tier) -> Vec<&'static str> {
        vec!["probe.switch_inside_token_loop", "probe.switch_after_table_boxed", "probe.switch_at_io_call", "probe.fresh_process_reference_compared", "probe.single_thread_repeat"]
    }

    fn aux(&self, args: &[String]) -> i32 {
        aux_reference_process(args)
    }

    fn thorough_extra(&self, ctx: &ExtraCtx) -> Option<ExtraResult> {
        Some(miri_arm(ctx))
    }

    fn run_job(&self, ctx: &JobCtx) -> JobResult {
        let mut res = JobResult {
            job: ctx.job,
            ..Default::default()
        };
        let mut pool = gen_pool(ctx.master_seed, ctx.job, ctx.tier);
        let ph = pool_hash(&pool);
        let reference = build_reference(&mut pool);
        let mut digest = Digest::default();
        digest.u64(ph);
        for o in reference.outputs.iter() {
            digest.u64(o.hash());
            match o {
                CallOutput::Ok(_) => res.bump("reference.ok"),
                CallOutput::Err(_) => res.bump("reference.err"),
                CallOutput::Panic => res.bump("reference.panic"),
            }
        }
        let gen = (ctx.master_seed, ctx.job, ctx.tier.name());

        // --- process independence: same calls, opposite order, fresh process
        match fresh_process_hashes(ctx.master_seed, ctx.job, ctx.tier, None) {
            Ok(v) => {
                res.bump("probe.fresh_process_reference_compared");
                res.evaluations += 1;
                for (c, h) in v.iter() {
                    let Some(call) = CallKind::from_json(&J::Str(c.clone())) else { continue };
                    let mine = reference.outputs[reference.index(call)].hash();
                    res.steps += 1;
                    if mine != *h && res.violations.is_empty() {
                        let plan = SchedPlan {
                            threads: vec![vec![call]],
                            policy: Policy::Stay,
                            seed: 0,
                            decim: 1,
                            explicit: None,
                        };
                        let mut doc = replay_doc(&pool, gen, &plan);
                        doc.put("pool", pool_to_json(&pool));
                        doc.put("mode", J::str("fresh_process"));
                        res.violations.push(Violation {
                            clause: "process_dependent_result".into(),
                            key: format!("process_dependent_result:{}:{:016x}", call.name(), ph),
                            what: format!(
                                "{} returns a different result in a fresh process (opposite call order) than in this process: {:016x} vs {:016x}",
                                call.name(),
                                h,
                                mine
                            ),
                            replay: doc,
                        });
                    }
                }
            }
            Err(e) => res.notes.push(format!("fresh-process reference unavailable: {}", e)),
        }

        // --- a long-lived thread: a few hundred further calls on varied small inputs (anything that
        // is recycled, counted or stamped per call gets used some 600 times), then the repeat
        let history_seed = derive(ctx.master_seed ^ 0xb0b0, ctx.job);
        history_calls(history_seed, HISTORY_CALLS);
        res.count("history_calls_before_repeat", HISTORY_CALLS as u64);

        // --- repeat in the same process, opposite order
        for c in reference.calls.iter().rev() {
            let o = perform(&pool, *c);
            res.steps += 1;
            if o != reference.outputs[reference.index(*c)] && res.violations.is_empty() {
                let plan = SchedPlan {
                    threads: vec![vec![*c, *c]],
                    policy: Policy::Stay,
                    seed: 0,
                    decim: 1,
                    explicit: None,
                };
                let mut doc = replay_doc(&pool, gen, &plan);
                doc.put("pool", pool_to_json(&pool));
                doc.put("mode", J::str("repeat"));
                doc.put("history_seed", J::str(&format!("{:016x}", history_seed)));
                doc.put("history_calls", J::u(HISTORY_CALLS as u64));
                res.violations.push(Violation {
                    clause: "repeat_differs".into(),
                    key: format!("repeat_differs:{}:{:016x}", c.name(), ph),
                    what: format!("{} returned a different result when called again in the same process: {} vs {}", c.name(), o.describe(), reference.outputs[reference.index(*c)].describe()),
                    replay: doc,
                });
            }
        }
        res.evaluations += 1;

        // --- address independence: the same bytes at every alignment of the buffer start
        for (i, f) in pool.files.iter().enumerate() {
            let want = &reference.outputs[reference.index(CallKind::Expand(i as u8))];
            for off in 1..8usize {
                let mut buf = vec![0xA5u8; off + f.len() + 8];
                buf[off..off + f.len()].copy_from_slice(f);
                let view = &buf[off..off + f.len()];
                let got = match catch_unwind(AssertUnwindSafe(|| preflate_rs::expand_zlib_chunks(view, 0))) {
                    Ok(Ok(b)) => CallOutput::Ok(b),
                    Ok(Err(e)) => CallOutput::Err(e.exit_code().as_integer_error_code()),
                    Err(_) => {
                        let _ = util::take_last_panic();
                        CallOutput::Panic
                    }
                };
                res.steps += 1;
                res.bump("probe.unaligned_input_views");
                if got != *want && res.violations.is_empty() {
                    let plan = SchedPlan {
                        threads: vec![vec![CallKind::Expand(i as u8)]],
                        policy: Policy::Stay,
                        seed: off as u64,
                        decim: 1,
                        explicit: None,
                    };
                    let mut doc = replay_doc(&pool, gen, &plan);
                    doc.put("pool", pool_to_json(&pool));
                    doc.put("mode", J::str("alignment"));
                    res.violations.push(Violation {
                        clause: "address_dependent_result".into(),
                        key: format!("address_dependent_result:expand:{:016x}", ph),
                        what: format!(
                            "expand_zlib_chunks returns {} for the same bytes when the slice starts {} byte(s) after an aligned address, but {} for the aligned copy",
                            got.describe(),
                            off,
                            want.describe()
                        ),
                        replay: doc,
                    });
                }
            }
        }
        res.evaluations += 1;

        // --- scheduled executions
        let nexec = match ctx.tier {
            Tier::Quick => 12,
            Tier::Thorough => 24,
        };
        let mut rng = Rng::new(derive(ctx.master_seed ^ 0x5c4ed2, ctx.job));
        let mut seen: HashSet<u64> = HashSet::new();
        let big_literals = pool
            .containers
            .iter()
            .flatten()
            .filter(|c| crate::simio::parse_layout(c).max_literal > 65536)
            .count()
            >= 2;
        if big_literals {
            res.bump("probe.pool_with_two_literals_over_64k");
        }
        // pools with two literals over 64 KiB get extra, targeted executions (they are cheap:
        // reconstruction calls only)
        let extra = if big_literals { 3 * nexec } else { 0 };
        for e in (0..nexec).chain(1000..1000 + extra) {
            if !res.violations.is_empty() {
                break;
            }
            let plan = gen_plan(&mut rng, &reference, ctx.tier, e, big_literals);
            announce_run(ctx, || replay_doc(&pool, gen, &plan));
            let out = execute(&pool, &reference, &plan);
            res.evaluations += 1;
            res.steps += out.hook_points + out.decisions;
            // a run in which the monitor had to take the baton over is not claimed to be deterministic
            digest.u64(if out.foreign_blocking { 0xf0e1 } else { out.digest });
            res.count("context_switches", out.switches);
            res.count("scheduler_decisions", out.decisions);
            res.bump(&format!("threads.{}", plan.threads.len()));
            res.bump(&format!(
                "fault.schedule.{}",
                match plan.policy {
                    Policy::RandomWalk(_) => "random_walk",
                    Policy::Pct(_) => "pct",
                    Policy::RoundRobin => "round_robin",
                    Policy::Stay => "stay",
                }
            ));
            if plan.threads.len() == 1 {
                res.bump("probe.single_thread_repeat");
            }
            if out.foreign_blocking {
                res.bump("foreign_blocking_runs");
            }
            let mut sd = Digest::default();
            for x in out.schedule.iter() {
                sd.u64(*x as u64);
            }
            if out.switches > 0 && seen.insert(sd.0) {
                res.distinct += 1;
            }
            for (a, b) in out.pairs.iter() {
                res.bump(&format!("st.pair.{}.{}", site_name(*a), site_name(*b)));
                if *b == Site::PredictToken as u8 || *b == Site::RecreateToken as u8 {
                    res.bump("probe.switch_inside_token_loop");
                }
                if *b == Site::HashTableBoxed as u8 || *b == Site::DepthTableBoxed as u8 {
                    res.bump("probe.switch_after_table_boxed");
                }
                if *b == SITE_IO_READ || *b == SITE_IO_WRITE {
                    res.bump("probe.switch_at_io_call");
                }
            }
            if res.samples.is_empty() && out.switches > 2 {
                res.samples.push(
                    J::obj()
                        .set("pool", J::Str(format!("{} files, {} streams, hash {:016x}", pool.files.len(), pool.streams.len(), ph)))
                        .set("plan", plan.to_json())
                        .set("schedule_prefix", J::Arr(out.schedule.iter().take(48).map(|x| J::u(*x as u64)).collect()))
                        .set("observed", observed_json(&reference, &out)),
                );
            }
            // process-wide state must be left alone: the panic hook installed by this process has to
            // be in place after concurrent calls (a probe panic must reach it)
            {
                let _ = util::take_last_panic();
                let _ = catch_unwind(|| panic!("simcheck hook probe"));
                if !util::take_last_panic().contains("simcheck hook probe") && res.violations.is_empty() {
                    let mut doc = replay_doc(&pool, gen, &plan);
                    doc.put("pool", pool_to_json(&pool));
                    doc.put("mode", J::str("schedule_hook"));
                    res.violations.push(Violation {
                        clause: "process_state_modified".into(),
                        key: format!("process_state_modified:panic_hook:{:016x}", ph),
                        what: "after the scheduled calls returned, the process-wide panic hook installed by the caller is no longer in place (a public function replaced it)".into(),
                        replay: doc,
                    });
                    // put ours back so that later diagnostics work
                    util::install_quiet_panic_hook();
                }
            }
            if let Some((clause, call)) = classify(&out) {
                let (mplan, mout) = minimise(&pool, &reference, &plan, &out, &clause);
                let mut doc = replay_doc(&pool, gen, &mplan);
                doc.put("pool", pool_to_json(&pool));
                doc.put("mode", J::str("schedule"));
                doc.put("digest", J::Str(format!("{:016x}", mout.digest)));
                doc.put("observed", observed_json(&reference, &mout));
                doc.put("unminimised_plan", plan.to_json());
                let what = match mout.mismatches.first().or(out.mismatches.first()) {
                    Some((tid, ci, c, got, _)) => format!(
                        "thread {} call {} {}: {} but the sequential reference is {} ({} context switches in the minimised schedule)",
                        tid,
                        ci,
                        c.name(),
                        got.describe(),
                        reference.outputs[reference.index(*c)].describe(),
                        mout.switches
                    ),
                    None => "result differs".into(),
                };
                res.violations.push(Violation {
                    clause: clause.clone(),
                    key: format!("{}:{}:{:016x}", clause, call.name(), ph),
                    what,
                    replay: doc,
                });
            }
        }
        res.digest = digest.0;
        res
    }

    fn replay(&self, doc: &J) -> ReplayOutcome {
        let bad = |m: String| ReplayOutcome {
            clause: None,
            digest: 0,
            detail: m,
        };
        if doc.get_str("engine") == Some("miri") {
            let root = std::path::PathBuf::from(doc.get_str("root").unwrap_or("/verif"));
            let full = doc.get_str("mode") == Some("full");
            let r = miri_run(&root, doc.get_u64("seed").unwrap_or(0), full, doc.get_u64("which").unwrap_or(0));
            return match r {
                MiriOutcome::Pass => ReplayOutcome {
                    clause: None,
                    digest: 0,
                    detail: "miri run passes".into(),
                },
                MiriOutcome::Fail(msg) => ReplayOutcome {
                    clause: Some("miri_error".into()),
                    digest: 0,
                    detail: msg,
                },
                MiriOutcome::Unavailable(msg) => bad(format!("miri unavailable: {}", msg)),
            };
        }
        let mut pool = if let Some(p) = doc.get("pool") {
            match pool_from_json(p) {
                Ok(p) => p,
                Err(e) => return bad(e),
            }
        } else if let Some(g) = doc.get("workload_gen") {
            let (Some(m), Some(j), Some(t)) = (g.get_u64("master_seed"), g.get_u64("job"), g.get_str("tier").and_then(Tier::parse)) else {
                return bad("workload_gen".into());
            };
            gen_pool(m, j, t)
        } else {
            return bad("no pool".into());
        };
        let plan = match doc.get("plan").ok_or("plan".to_string()).and_then(SchedPlan::from_json) {
            Ok(p) => p,
            Err(e) => return bad(e),
        };
        let reference = build_reference(&mut pool);
        match doc.get_str("mode").unwrap_or("schedule") {
            "fresh_process" => {
                // write the pool to a temp file next to the replay document for the child
                let tmp = std::env::temp_dir().join(format!("simcheck-pool-{}.json", std::process::id()));
                let _ = std::fs::write(&tmp, J::obj().set("pool", pool_to_json(&pool)).to_string());
                let r = fresh_process_hashes(0, 0, Tier::Quick, tmp.to_str());
                let _ = std::fs::remove_file(&tmp);
                match r {
                    Ok(v) => {
                        for (c, h) in v {
                            if let Some(call) = CallKind::from_json(&J::Str(c)) {
                                let mine = reference.outputs[reference.index(call)].hash();
                                if mine != h {
                                    return ReplayOutcome {
                                        clause: Some("process_dependent_result".into()),
                                        digest: 0,
                                        detail: format!("{} differs between two processes: {:016x} vs {:016x}", call.name(), h, mine),
                                    };
                                }
                            }
                        }
                        ReplayOutcome {
                            clause: None,
                            digest: 0,
                            detail: "all results identical in a fresh process".into(),
                        }
                    }
                    Err(e) => bad(e),
                }
            }
            "alignment" => {
                for (i, f) in pool.files.iter().enumerate() {
                    let want = &reference.outputs[reference.index(CallKind::Expand(i as u8))];
                    for off in 1..8usize {
                        let mut buf = vec![0xA5u8; off + f.len() + 8];
                        buf[off..off + f.len()].copy_from_slice(f);
                        let view = &buf[off..off + f.len()];
                        let got = match catch_unwind(AssertUnwindSafe(|| preflate_rs::expand_zlib_chunks(view, 0))) {
                            Ok(Ok(b)) => CallOutput::Ok(b),
                            Ok(Err(e)) => CallOutput::Err(e.exit_code().as_integer_error_code()),
                            Err(_) => CallOutput::Panic,
                        };
                        if got != *want {
                            return ReplayOutcome {
                                clause: Some("address_dependent_result".into()),
                                digest: 0,
                                detail: format!("expand_zlib_chunks depends on the alignment of its input (offset {})", off),
                            };
                        }
                    }
                }
                ReplayOutcome {
                    clause: None,
                    digest: 0,
                    detail: "results identical at all 8 alignments".into(),
                }
            }
            "repeat" => {
                if let Some(hs) = doc.get_str("history_seed").and_then(|h| u64::from_str_radix(h, 16).ok()) {
                    history_calls(hs, doc.get_u64("history_calls").unwrap_or(0) as usize);
                }
                for c in reference.calls.iter().rev() {
                    let o = perform(&pool, *c);
                    if o != reference.outputs[reference.index(*c)] {
                        return ReplayOutcome {
                            clause: Some("repeat_differs".into()),
                            digest: 0,
                            detail: format!("{} returned a different result when called again", c.name()),
                        };
                    }
                }
                ReplayOutcome {
                    clause: None,
                    digest: 0,
                    detail: "repeated calls identical".into(),
                }
            }
            "schedule_hook" => {
                let _out = execute(&pool, &reference, &plan);
                let _ = util::take_last_panic();
                let _ = catch_unwind(|| panic!("simcheck hook probe"));
                if !util::take_last_panic().contains("simcheck hook probe") {
                    ReplayOutcome {
                        clause: Some("process_state_modified".into()),
                        digest: 0,
                        detail: "the caller's panic hook is gone after the scheduled calls".into(),
                    }
                } else {
                    ReplayOutcome {
                        clause: None,
                        digest: 0,
                        detail: "panic hook still in place".into(),
                    }
                }
            }
            _ => {
                let out = execute(&pool, &reference, &plan);
                match classify(&out) {
                    Some((clause, call)) => ReplayOutcome {
                        clause: Some(clause),
                        digest: out.digest,
                        detail: format!("{}: {}", call.name(), observed_json(&reference, &out).to_string()),
                    },
                    None => ReplayOutcome {
                        clause: None,
                        digest: out.digest,
                        detail: format!("all results equal the sequential reference ({} context switches)", out.switches),
                    },
                }
            }
        }
    }
}

// ---------------------------------------------------------------------------------------------
// Miri arm (thorough tier): Miri is itself a seeded deterministic scheduler that preempts at
// basic-block granularity and reports data races and reads of uninitialised memory.

pub enum MiriOutcome {
    Pass,
    Fail(String),
    Unavailable(String),
}

fn miri_flags(seed: u64, full: bool) -> String {
    let mut f = format!("-Zmiri-seed={} -Zmiri-preemption-rate=0.05", seed);
    if !full {
        // data-race and uninitialised-read detection stay on
        f.push_str(" -Zmiri-disable-stacked-borrows -Zmiri-disable-validation");
    }
    f
}

pub fn miri_run(root: &std::path::Path, seed: u64, full: bool, which: u64) -> MiriOutcome {
    let manifest = root.join("miri").join("Cargo.toml");
    let out = std::process::Command::new("cargo")
        .arg("+nightly")
        .arg("miri")
        .arg("run")
        .arg("--offline")
        .arg("--manifest-path")
        .arg(&manifest)
        .arg("--")
        .arg(which.to_string())
        .env("MIRIFLAGS", miri_flags(seed, full))
        .env("CARGO_NET_OFFLINE", "true")
        .env_remove("RUSTFLAGS")
        .stdin(std::process::Stdio::null())
        .output();
    let out = match out {
        Ok(o) => o,
        Err(e) => return MiriOutcome::Unavailable(e.to_string()),
    };
    let stdout = String::from_utf8_lossy(&out.stdout);
    let stderr = String::from_utf8_lossy(&out.stderr);
    if out.status.success() && stdout.contains("c14-miri ok") {
        return MiriOutcome::Pass;
    }
    if stderr.contains("could not compile") || stderr.contains("error: no such command") || stderr.contains("is not installed") {
        return MiriOutcome::Unavailable(stderr.lines().filter(|l| l.starts_with("error")).take(3).collect::<Vec<_>>().join(" | "));
    }
    let msg: Vec<&str> = stderr
        .lines()
        .filter(|l| l.contains("error") || l.contains("Undefined Behavior") || l.contains("panicked") || l.contains("Data race") || l.contains("differs"))
        .take(4)
        .collect();
    MiriOutcome::Fail(format!("exit {:?}: {}", out.status.code(), msg.join(" | ")))
}

fn miri_arm(ctx: &ExtraCtx) -> ExtraResult {
    let n_full = util::env_u64("VERIF_MIRI_FULL").unwrap_or(16);
    let n_fast = util::env_u64("VERIF_MIRI_FAST").unwrap_or(32);
    let mut plans: Vec<(u64, bool, u64)> = Vec::new();
    for k in 0..n_full {
        plans.push((ctx.master_seed.wrapping_mul(1000).wrapping_add(k), true, k % 4));
    }
    for k in 0..n_fast {
        plans.push((ctx.master_seed.wrapping_mul(1000).wrapping_add(500 + k), false, k % 4));
    }
    let next = std::sync::atomic::AtomicUsize::new(0);
    let results: Mutex<Vec<(u64, bool, u64, MiriOutcome)>> = Mutex::new(Vec::new());
    std::thread::scope(|s| {
        for _ in 0..ctx.workers.max(1).min(plans.len().max(1)) {
            s.spawn(|| loop {
                let i = next.fetch_add(1, std::sync::atomic::Ordering::SeqCst);
                if i >= plans.len() {
                    break;
                }
                let (seed, full, which) = plans[i];
                let r = miri_run(&ctx.root, seed, full, which);
                results.lock().unwrap().push((seed, full, which, r));
            });
        }
    });
    let results = results.into_inner().unwrap();
    let mut violations = Vec::new();
    let mut harness_errors = Vec::new();
    let (mut pass_full, mut pass_fast, mut unavailable) = (0u64, 0u64, 0u64);
    for (seed, full, which, r) in results.iter() {
        match r {
            MiriOutcome::Pass => {
                if *full {
                    pass_full += 1
                } else {
                    pass_fast += 1
                }
            }
            MiriOutcome::Unavailable(m) => {
                unavailable += 1;
                if harness_errors.is_empty() {
                    harness_errors.push(format!("miri arm unavailable: {}", m));
                }
            }
            MiriOutcome::Fail(msg) => {
                violations.push(Violation {
                    clause: "miri_error".into(),
                    key: format!("miri_error:{}:{}:{}", if *full { "full" } else { "fast" }, seed, which),
                    what: format!("Miri (seed {}, {} mode, stream {}) reports: {}", seed, if *full { "full" } else { "fast" }, which, msg),
                    replay: J::obj()
                        .set("engine", J::str("miri"))
                        .set("workload_hash", J::Str(format!("stream{}", which)))
                        .set("plan_key", J::Str(format!("seed{}", seed)))
                        .set("root", J::Str(ctx.root.display().to_string()))
                        .set("mode", J::str(if *full { "full" } else { "fast" }))
                        .set("seed", J::u(*seed))
                        .set("which", J::u(*which))
                        .set("miriflags", J::Str(miri_flags(*seed, *full))),
                });
            }
        }
    }
    ExtraResult {
        name: "miri".into(),
        evaluations: pass_full + pass_fast + violations.len() as u64,
        evidence: J::obj()
            .set("name", J::str("Miri arm: cold start - 2 threads x (decompress_deflate_stream + recompress_deflate_stream) on a shared ~200 byte stream make the first calls of the process, the sequential reference is computed afterwards; 4 streams (zlib levels 6/1/9 and one without 3 byte matches); Miri's seeded scheduler preempts at basic-block granularity; data-race and uninitialised-read detection on"))
            .set("full_mode_seeds_passed", J::u(pass_full))
            .set("fast_mode_seeds_passed", J::u(pass_fast))
            .set("failed", J::u(violations.len() as u64))
            .set("unavailable", J::u(unavailable))
            .set("first_seed", J::u(ctx.master_seed.wrapping_mul(1000)))
            .set("flags_full", J::Str(miri_flags(0, true)))
            .set("flags_fast", J::Str(miri_flags(0, false)))
            .set("limits", J::str("cannot cross the zstd FFI: only the pure-Rust entry points run under Miri")),
        violations,
        harness_errors,
    }
}
