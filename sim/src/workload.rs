//! Seeded workload generator: structured plaintexts -> real compressors -> wrappers -> files.
//! A means, not a claim: it only has to produce files on which the library has real work to do.

use crate::json::J;
use crate::prng::Rng;

#[derive(Clone, Debug)]
pub enum Compressor {
    Zlib {
        level: i32,
        strategy: i32,
        window_bits: i32,
        mem_level: i32,
    },
    ZlibNg {
        level: i32,
    },
    Libdeflate {
        level: i32,
    },
    Miniz {
        level: u8,
    },
    /// the harness's own parametric encoder
    Lz77(crate::lz77::Lz77Params),
    /// zlib with Z_SYNC_FLUSH after every `interval` input bytes for the first `flushed` bytes
    /// (interactive protocols: many tiny and empty blocks, corrections larger than the text)
    ZlibFlushy { level: i32, interval: usize, flushed: usize },
}

impl Compressor {
    pub fn describe(&self) -> String {
        match self {
            Compressor::Zlib {
                level,
                strategy,
                window_bits,
                mem_level,
            } => format!("zlib(l={},s={},w={},m={})", level, strategy, window_bits, mem_level),
            Compressor::ZlibNg { level } => format!("zlib-ng(l={})", level),
            Compressor::Libdeflate { level } => format!("libdeflate(l={})", level),
            Compressor::Miniz { level } => format!("miniz_oxide(l={})", level),
            Compressor::Lz77(p) => p.describe(),
            Compressor::ZlibFlushy { level, interval, flushed } => format!("zlib-sync-flush(l={},every={},first={})", level, interval, flushed),
        }
    }

    pub fn random(rng: &mut Rng) -> Compressor {
        if rng.chance(1, 8) {
            return Compressor::Lz77(crate::lz77::Lz77Params::random(rng));
        }
        if rng.chance(1, 16) {
            return Compressor::ZlibFlushy {
                level: rng.range(1, 9) as i32,
                interval: rng.range(1, 8) as usize,
                flushed: *rng.pick(&[64usize, 400, 1500, 100000]),
            };
        }
        match rng.below(10) {
            0..=4 => {
                // zlib: mostly defaults, sometimes unusual window/memlevel/strategy
                let level = rng.range(0, 9) as i32;
                let strategy = if rng.chance(3, 4) {
                    0
                } else {
                    *rng.pick(&[1, 2, 3, 4]) // FILTERED, HUFFMAN_ONLY, RLE, FIXED
                };
                let (window_bits, mem_level) = if rng.chance(1, 2) {
                    (15, 8)
                } else {
                    (rng.range(9, 15) as i32, rng.range(1, 9) as i32)
                };
                Compressor::Zlib {
                    level,
                    strategy,
                    window_bits,
                    mem_level,
                }
            }
            5 | 6 => Compressor::ZlibNg {
                level: rng.range(1, 9) as i32,
            },
            7 | 8 => Compressor::Libdeflate {
                level: rng.range(0, 12) as i32,
            },
            _ => Compressor::Miniz {
                level: rng.range(0, 10) as u8,
            },
        }
    }

    /// raw DEFLATE stream of `plain`
    pub fn compress(&self, plain: &[u8]) -> Vec<u8> {
        match self {
            Compressor::Zlib {
                level,
                strategy,
                window_bits,
                mem_level,
            } => zlib_raw(plain, *level, *strategy, *window_bits, *mem_level),
            Compressor::ZlibNg { level } => zlibng_raw(plain, *level),
            Compressor::Libdeflate { level } => libdeflate_raw(plain, *level),
            Compressor::Miniz { level } => miniz_oxide::deflate::compress_to_vec(plain, *level),
            Compressor::Lz77(p) => crate::lz77::encode(plain, p),
            Compressor::ZlibFlushy { level, interval, flushed } => zlib_flushy(plain, *level, *interval, *flushed),
        }
    }
}

pub fn zlib_raw(input: &[u8], level: i32, strategy: i32, window_bits: i32, mem_level: i32) -> Vec<u8> {
    use libz_sys::*;
    unsafe {
        let mut zs = std::mem::MaybeUninit::<z_stream>::uninit();
        std::ptr::write_bytes(zs.as_mut_ptr() as *mut u8, 0, std::mem::size_of::<z_stream>());
        let z = zs.as_mut_ptr();
        let rc = deflateInit2_(
            z,
            level,
            Z_DEFLATED,
            -window_bits,
            mem_level,
            strategy,
            zlibVersion(),
            std::mem::size_of::<z_stream>() as i32,
        );
        assert_eq!(rc, Z_OK, "deflateInit2_ failed");
        let mut out: Vec<u8> = vec![0; input.len() + input.len() / 4 + 4096];
        (*z).next_in = input.as_ptr() as *mut _;
        (*z).avail_in = input.len() as u32;
        (*z).next_out = out.as_mut_ptr();
        (*z).avail_out = out.len() as u32;
        loop {
            let rc = deflate(z, Z_FINISH);
            if rc == Z_STREAM_END {
                break;
            }
            assert!(rc == Z_OK || rc == Z_BUF_ERROR, "deflate rc={}", rc);
            let done = (*z).total_out as usize;
            out.resize(out.len() * 2, 0);
            (*z).next_out = out.as_mut_ptr().add(done);
            (*z).avail_out = (out.len() - done) as u32;
        }
        out.truncate((*z).total_out as usize);
        deflateEnd(z);
        out
    }
}

pub fn zlibng_raw(input: &[u8], level: i32) -> Vec<u8> {
    use libz_ng_sys::*;
    unsafe {
        let mut zs = std::mem::MaybeUninit::<z_stream>::uninit();
        std::ptr::write_bytes(zs.as_mut_ptr() as *mut u8, 0, std::mem::size_of::<z_stream>());
        let z = zs.as_mut_ptr();
        let rc = deflateInit2_(
            z,
            level,
            Z_DEFLATED,
            -15,
            8,
            Z_DEFAULT_STRATEGY,
            zlibVersion(),
            std::mem::size_of::<z_stream>() as i32,
        );
        assert_eq!(rc, Z_OK, "zng deflateInit2_ failed");
        let mut out: Vec<u8> = vec![0; input.len() + input.len() / 4 + 4096];
        (*z).next_in = input.as_ptr() as *mut _;
        (*z).avail_in = input.len() as u32;
        (*z).next_out = out.as_mut_ptr();
        (*z).avail_out = out.len() as u32;
        loop {
            let rc = deflate(z, Z_FINISH);
            if rc == Z_STREAM_END {
                break;
            }
            assert!(rc == Z_OK || rc == Z_BUF_ERROR, "zng deflate rc={}", rc);
            let done = (*z).total_out as usize;
            out.resize(out.len() * 2, 0);
            (*z).next_out = out.as_mut_ptr().add(done);
            (*z).avail_out = (out.len() - done) as u32;
        }
        out.truncate((*z).total_out as usize);
        deflateEnd(z);
        out
    }
}

pub fn libdeflate_raw(input: &[u8], level: i32) -> Vec<u8> {
    use libdeflate_sys::*;
    unsafe {
        let c = libdeflate_alloc_compressor(level);
        assert!(!c.is_null());
        let bound = libdeflate_deflate_compress_bound(c, input.len());
        let mut out = vec![0u8; bound + 16];
        let sz = libdeflate_deflate_compress(
            c,
            input.as_ptr() as *const core::ffi::c_void,
            input.len(),
            out.as_mut_ptr() as *mut core::ffi::c_void,
            out.len(),
        );
        libdeflate_free_compressor(c);
        assert_ne!(sz, 0);
        out.truncate(sz);
        out
    }
}

/// independent inflater (zlib), raw mode; returns (plaintext, consumed bytes)
pub fn zlib_inflate_raw(input: &[u8], size_hint: usize) -> Option<(Vec<u8>, usize)> {
    use libz_sys::*;
    unsafe {
        let mut zs = std::mem::MaybeUninit::<z_stream>::uninit();
        std::ptr::write_bytes(zs.as_mut_ptr() as *mut u8, 0, std::mem::size_of::<z_stream>());
        let z = zs.as_mut_ptr();
        let rc = inflateInit2_(z, -15, zlibVersion(), std::mem::size_of::<z_stream>() as i32);
        if rc != Z_OK {
            return None;
        }
        let mut out: Vec<u8> = vec![0; size_hint.max(1024)];
        (*z).next_in = input.as_ptr() as *mut _;
        (*z).avail_in = input.len() as u32;
        (*z).next_out = out.as_mut_ptr();
        (*z).avail_out = out.len() as u32;
        let ok;
        loop {
            let rc = inflate(z, Z_NO_FLUSH);
            if rc == Z_STREAM_END {
                ok = true;
                break;
            }
            if rc != Z_OK && rc != Z_BUF_ERROR {
                ok = false;
                break;
            }
            if (*z).avail_out == 0 {
                let done = (*z).total_out as usize;
                out.resize(out.len() * 2, 0);
                (*z).next_out = out.as_mut_ptr().add(done);
                (*z).avail_out = (out.len() - done) as u32;
            } else if (*z).avail_in == 0 {
                ok = false;
                break;
            }
        }
        let total_out = (*z).total_out as usize;
        let total_in = (*z).total_in as usize;
        inflateEnd(z);
        if ok {
            out.truncate(total_out);
            Some((out, total_in))
        } else {
            None
        }
    }
}

pub fn adler32(data: &[u8]) -> u32 {
    let mut a: u32 = 1;
    let mut b: u32 = 0;
    for chunk in data.chunks(5552) {
        for &x in chunk {
            a += x as u32;
            b += a;
        }
        a %= 65521;
        b %= 65521;
    }
    (b << 16) | a
}

/// structured random plaintext of roughly `target` bytes
pub fn gen_plaintext(rng: &mut Rng, target: usize) -> Vec<u8> {
    // one in eight plaintexts is degenerate as a whole: a single period, a single run, a two
    // symbol alphabet ... (single-code Huffman trees, one distance only, no match at all)
    if rng.chance(1, 8) {
        let mut out: Vec<u8> = Vec::with_capacity(target + 8);
        match rng.below(8) {
            7 => {
                // symbol frequencies falling off like the Fibonacci sequence: the unlimited Huffman
                // tree is much deeper than the 15 (7) bit limit, the length-limiting step has real work
                let nsym = rng.range(18, 30) as usize;
                let mut weights: Vec<u64> = vec![1, 2];
                while weights.len() < nsym {
                    let l = weights.len();
                    weights.push(weights[l - 1] + weights[l - 2]);
                }
                let total: u64 = weights.iter().sum();
                let base = rng.below(200) as u8;
                for _ in 0..target.max(12000) {
                    let mut x = rng.below(total);
                    let mut sym = 0usize;
                    while x >= weights[sym] {
                        x -= weights[sym];
                        sym += 1;
                    }
                    out.push(base.wrapping_add(sym as u8));
                }
            }
            6 => {
                // pure noise: compressors fall back to stored / huffman-only blocks and the
                // compressed file is larger than its plaintext
                out.resize(target, 0);
                rng.fill(&mut out);
            }
            0 => {
                let p = rng.range(1, 6) as usize;
                let pat: Vec<u8> = (0..p).map(|_| b'a' + rng.below(26) as u8).collect();
                for i in 0..target {
                    out.push(pat[i % p]);
                }
            }
            1 => {
                let b = rng.below(256) as u8;
                out.resize(target, b);
            }
            2 => {
                for _ in 0..target {
                    out.push(if rng.chance(1, 2) { b'0' } else { b'1' });
                }
            }
            3 => {
                // period-2 body with rare disturbances (almost every match has distance 2)
                let (a, b) = (rng.below(256) as u8, rng.below(256) as u8);
                for i in 0..target {
                    out.push(if rng.chance(1, 300) { rng.below(256) as u8 } else if i % 2 == 0 { a } else { b });
                }
            }
            4 => {
                // strictly increasing bytes: no match at all
                for i in 0..target {
                    out.push((i % 251) as u8 ^ ((i / 251) as u8).wrapping_mul(37));
                }
            }
            _ => {
                // long runs of few different bytes
                while out.len() < target {
                    let b = *rng.pick(b"xyz");
                    let n = rng.range(1, 700) as usize;
                    out.extend(std::iter::repeat(b).take(n.min(target - out.len())));
                }
            }
        }
        return out;
    }
    let mut out: Vec<u8> = Vec::with_capacity(target + 512);
    // vocabulary for word soup
    let nwords = rng.range(8, 120) as usize;
    let mut words: Vec<Vec<u8>> = Vec::new();
    let alphabet: &[u8] = if rng.chance(1, 3) {
        b"abcdefghijklmnopqrstuvwxyz"
    } else if rng.chance(1, 2) {
        b"ACGT"
    } else {
        b"etaoinshrdlucmfwypvbgkqjxz ETAOIN0123456789<>/=\""
    };
    for _ in 0..nwords {
        let l = rng.range(2, 11) as usize;
        words.push((0..l).map(|_| *rng.pick(alphabet)).collect());
    }
    while out.len() < target {
        let remaining = target - out.len();
        let seg = (rng.range(16, 2048) as usize).min(remaining.max(16));
        match rng.below(12) {
            0..=4 => {
                // word soup
                let end = out.len() + seg;
                while out.len() < end {
                    let w = rng.pick(&words).clone();
                    out.extend_from_slice(&w);
                    out.push(*rng.pick(b"  \n,.;:"));
                }
            }
            5 => {
                // long repeat of a short pattern (matches >= 258)
                let p = rng.range(1, 9) as usize;
                let pat: Vec<u8> = (0..p).map(|_| rng.below(256) as u8).collect();
                let n = seg.max(300);
                for i in 0..n {
                    out.push(pat[i % p]);
                }
            }
            6 => {
                // single byte run
                let b = rng.below(256) as u8;
                let n = rng.range(3, 600) as usize;
                out.extend(std::iter::repeat(b).take(n));
            }
            7 => {
                // periodic data with noise
                let p = rng.range(3, 64) as usize;
                let pat: Vec<u8> = (0..p).map(|_| rng.below(256) as u8).collect();
                for i in 0..seg {
                    if rng.chance(1, 40) {
                        out.push(rng.below(256) as u8);
                    } else {
                        out.push(pat[i % p]);
                    }
                }
            }
            8 => {
                // binary noise
                let n = seg.min(400);
                let start = out.len();
                out.resize(start + n, 0);
                rng.fill(&mut out[start..]);
            }
            9 | 10 => {
                // copy of an earlier section (possibly far away)
                if out.len() > 8 {
                    let from = rng.usize_below(out.len() - 4);
                    let n = seg.min(out.len() - from);
                    let tmp: Vec<u8> = out[from..from + n].to_vec();
                    out.extend_from_slice(&tmp);
                } else {
                    out.extend_from_slice(b"startstartstart");
                }
            }
            _ => {
                // low-entropy bytes (few symbols) - huffman friendly
                let k = rng.range(2, 6);
                for _ in 0..seg {
                    out.push(b'0' + rng.below(k) as u8);
                }
            }
        }
    }
    out
}

#[derive(Clone, Debug, PartialEq)]
pub enum Wrapper {
    /// zlib header (second byte index into 01/5E/9C/DA) + adler32
    Zlib(u8),
    /// gzip with FLG bits (FEXTRA=4, FNAME=8, FCOMMENT=16, FHCRC=2)
    Gzip(u8),
    /// zip local file header, name length, extra length
    Zip(u16, u16),
    /// consecutive PNG IDAT chunks (number of chunks)
    Png(u8),
    /// no wrapper at all: the raw stream sits between junk (will not be detected; stays literal)
    Bare,
}

impl Wrapper {
    pub fn random(rng: &mut Rng) -> Wrapper {
        match rng.below(16) {
            0..=3 => Wrapper::Zlib(rng.below(4) as u8),
            4..=7 => Wrapper::Gzip(*rng.pick(&[0u8, 2, 4, 8, 16, 6, 10, 12, 18, 20, 24, 14, 22, 26, 28, 30])),
            8..=11 => Wrapper::Zip(rng.range(0, 40) as u16, if rng.chance(1, 2) { 0 } else { rng.range(1, 60) as u16 }),
            12..=14 => Wrapper::Png(rng.range(1, 5) as u8),
            _ => Wrapper::Bare,
        }
    }
    pub fn describe(&self) -> String {
        match self {
            Wrapper::Zlib(i) => format!("zlib(78{:02x})", [0x01u8, 0x5e, 0x9c, 0xda][*i as usize & 3]),
            Wrapper::Gzip(f) => format!("gzip(flg={:#04x})", f),
            Wrapper::Zip(n, e) => format!("zip(name={},extra={})", n, e),
            Wrapper::Png(c) => format!("png(idat x{})", c),
            Wrapper::Bare => "bare".to_string(),
        }
    }
}

fn printable(rng: &mut Rng, n: usize) -> Vec<u8> {
    (0..n).map(|_| *rng.pick(b"abcdefghijklmnopqrstuvwxyz_-.0123456789")).collect()
}

pub fn wrap(rng: &mut Rng, w: &Wrapper, raw: &[u8], plain: &[u8]) -> Vec<u8> {
    let mut out = Vec::with_capacity(raw.len() + 128);
    match w {
        Wrapper::Zlib(i) => {
            out.push(0x78);
            out.push([0x01u8, 0x5e, 0x9c, 0xda][*i as usize & 3]);
            out.extend_from_slice(raw);
            out.extend_from_slice(&adler32(plain).to_be_bytes());
        }
        Wrapper::Gzip(flg) => {
            out.extend_from_slice(&[0x1f, 0x8b, 8, *flg]);
            let mut mtime = [0u8; 4];
            rng.fill(&mut mtime);
            out.extend_from_slice(&mtime);
            out.push(*rng.pick(&[0u8, 2, 4]));
            out.push(*rng.pick(&[0u8, 3, 255]));
            if flg & 4 != 0 {
                let n = rng.range(0, 40) as usize;
                out.extend_from_slice(&(n as u16).to_le_bytes());
                let start = out.len();
                out.resize(start + n, 0);
                rng.fill(&mut out[start..]);
            }
            if flg & 8 != 0 {
                let n = rng.range(0, 20) as usize;
                out.extend_from_slice(&printable(rng, n));
                out.push(0);
            }
            if flg & 16 != 0 {
                let n = rng.range(0, 30) as usize;
                out.extend_from_slice(&printable(rng, n));
                out.push(0);
            }
            if flg & 2 != 0 {
                let mut crc16 = [0u8; 2];
                rng.fill(&mut crc16);
                out.extend_from_slice(&crc16);
            }
            out.extend_from_slice(raw);
            out.extend_from_slice(&crc32fast::hash(plain).to_le_bytes());
            out.extend_from_slice(&(plain.len() as u32).to_le_bytes());
        }
        Wrapper::Zip(name_len, extra_len) => {
            // size fields: real sizes, or the Zip64 sentinel 0xFFFFFFFF with the sizes in a 0x0001
            // extra field, or zero with the data-descriptor flag (sizes follow the data)
            let variant = rng.below(6);
            let zip64 = variant == 0;
            let descriptor = variant == 1;
            out.extend_from_slice(&0x04034b50u32.to_le_bytes());
            out.extend_from_slice(&(if zip64 { 45u16 } else { 20u16 }).to_le_bytes()); // version needed
            out.extend_from_slice(&(if descriptor { 8u16 } else { 0u16 }).to_le_bytes()); // flags
            out.extend_from_slice(&8u16.to_le_bytes()); // method deflate
            out.extend_from_slice(&(rng.below(65536) as u16).to_le_bytes()); // time
            out.extend_from_slice(&(rng.below(65536) as u16).to_le_bytes()); // date
            out.extend_from_slice(&(if descriptor { 0 } else { crc32fast::hash(plain) }).to_le_bytes());
            // variant 2: a compressed-size field that disagrees with the real stream length (writers
            // that count padding, or a damaged header): the file is still just a byte string
            let (cs, us) = if zip64 {
                (0xFFFF_FFFFu32, 0xFFFF_FFFFu32)
            } else if descriptor {
                (0, 0)
            } else if variant == 2 {
                let delta = rng.range(1, 40) as u32;
                (if rng.chance(1, 2) { raw.len() as u32 + delta } else { (raw.len() as u32).saturating_sub(delta).max(1) }, plain.len() as u32)
            } else {
                (raw.len() as u32, plain.len() as u32)
            };
            out.extend_from_slice(&cs.to_le_bytes());
            out.extend_from_slice(&us.to_le_bytes());
            out.extend_from_slice(&name_len.to_le_bytes());
            let extra_total = *extra_len + if zip64 { 20 } else { 0 };
            out.extend_from_slice(&extra_total.to_le_bytes());
            out.extend_from_slice(&printable(rng, *name_len as usize));
            if zip64 {
                out.extend_from_slice(&1u16.to_le_bytes());
                out.extend_from_slice(&16u16.to_le_bytes());
                out.extend_from_slice(&(plain.len() as u64).to_le_bytes());
                out.extend_from_slice(&(raw.len() as u64).to_le_bytes());
            }
            let start = out.len();
            out.resize(start + *extra_len as usize, 0);
            rng.fill(&mut out[start..]);
            out.extend_from_slice(raw);
            if descriptor {
                out.extend_from_slice(&0x08074b50u32.to_le_bytes());
                out.extend_from_slice(&crc32fast::hash(plain).to_le_bytes());
                out.extend_from_slice(&(raw.len() as u32).to_le_bytes());
                out.extend_from_slice(&(plain.len() as u32).to_le_bytes());
            }
        }
        Wrapper::Png(chunks) => {
            let mut z = Vec::with_capacity(raw.len() + 6);
            z.push(0x78);
            z.push(*rng.pick(&[0x01u8, 0x5e, 0x9c, 0xda]));
            z.extend_from_slice(raw);
            z.extend_from_slice(&adler32(plain).to_be_bytes());
            // split z into `chunks` non-empty pieces (first piece >= 6 bytes where possible)
            let n = (*chunks as usize).max(1).min(z.len().max(1));
            let mut cuts: Vec<usize> = Vec::new();
            for k in 1..n {
                if z.len() > 16 {
                    // mostly anywhere; sometimes a cut that splits the 2 byte zlib header or the
                    // 4 byte Adler-32 across two chunks (fixed-size IDAT writers produce that)
                    let c = match rng.below(8) {
                        0 if k == 1 => rng.range(1, 2) as usize,
                        1 if k + 1 == n => z.len() - rng.range(1, 5) as usize,
                        _ => rng.range(1, (z.len() - 1) as u64) as usize,
                    };
                    cuts.push(c);
                }
            }
            cuts.sort();
            cuts.dedup();
            let mut start = 0usize;
            cuts.push(z.len());
            for &c in cuts.iter() {
                let piece = &z[start..c];
                out.extend_from_slice(&(piece.len() as u32).to_be_bytes());
                out.extend_from_slice(b"IDAT");
                out.extend_from_slice(piece);
                let mut h = crc32fast::Hasher::new();
                h.update(b"IDAT");
                h.update(piece);
                out.extend_from_slice(&h.finalize().to_be_bytes());
                start = c;
            }
            // IEND chunk (the scanner needs >= 8 bytes after the last IDAT chunk)
            out.extend_from_slice(&[0, 0, 0, 0]);
            out.extend_from_slice(b"IEND");
            out.extend_from_slice(&[0xae, 0x42, 0x60, 0x82]);
        }
        Wrapper::Bare => {
            out.extend_from_slice(raw);
        }
    }
    out
}

fn junk(rng: &mut Rng, out: &mut Vec<u8>) {
    let n = rng.range(0, 48) as usize;
    for _ in 0..n {
        match rng.below(24) {
            0 => out.extend_from_slice(b"PK"),
            1 => out.extend_from_slice(&[0x1f, 0x8b]),
            2 => out.extend_from_slice(&[0x78, *rng.pick(&[0x01u8, 0x5e, 0x9c, 0xda])]),
            3 => out.extend_from_slice(b"IDAT"),
            4 => out.extend_from_slice(&[0x50, 0x4b, 0x03, 0x04]),
            _ => out.push(rng.below(256) as u8),
        }
    }
}

#[derive(Clone, Debug)]
pub struct Member {
    pub compressor: Compressor,
    pub wrapper: Wrapper,
    pub plain_len: usize,
    pub raw_len: usize,
}

#[derive(Clone, Debug)]
pub struct Workload {
    pub file: Vec<u8>,
    pub members: Vec<Member>,
}

impl Workload {
    pub fn describe(&self) -> J {
        J::Obj(vec![
            ("file_len".into(), J::u(self.file.len() as u64)),
            ("file_hash".into(), J::Str(format!("{:016x}", crate::prng::hash_bytes(&self.file)))),
            (
                "members".into(),
                J::Arr(
                    self.members
                        .iter()
                        .map(|m| {
                            J::Str(format!(
                                "{} in {} plain={} raw={}",
                                m.compressor.describe(),
                                m.wrapper.describe(),
                                m.plain_len,
                                m.raw_len
                            ))
                        })
                        .collect(),
                ),
            ),
        ])
    }
}

#[derive(Clone, Copy, Debug)]
pub struct SizeClass {
    pub min_plain: usize,
    pub max_plain: usize,
    pub max_members: u64,
}

pub const SMALL: SizeClass = SizeClass {
    min_plain: 1100,
    max_plain: 6000,
    max_members: 3,
};
pub const MEDIUM: SizeClass = SizeClass {
    min_plain: 1100,
    max_plain: 20000,
    max_members: 4,
};
pub const LARGE: SizeClass = SizeClass {
    min_plain: 40000,
    max_plain: 300000,
    max_members: 2,
};

/// a file with 1..max_members wrapped streams, junk and look-alike signatures in between
pub fn gen_file(rng: &mut Rng, sc: SizeClass) -> Workload {
    let mut file = Vec::new();
    let mut members = Vec::new();
    let n = rng.range(1, sc.max_members);
    junk(rng, &mut file);
    for _ in 0..n {
        let target = rng.range(sc.min_plain as u64, sc.max_plain as u64) as usize;
        let plain = gen_plaintext(rng, target);
        let compressor = Compressor::random(rng);
        let raw = compressor.compress(&plain);
        let wrapper = Wrapper::random(rng);
        let wrapped = wrap(rng, &wrapper, &raw, &plain);
        file.extend_from_slice(&wrapped);
        members.push(Member {
            compressor,
            wrapper,
            plain_len: plain.len(),
            raw_len: raw.len(),
        });
        junk(rng, &mut file);
        if rng.chance(1, 8) {
            // a run member: a little more than 1024 identical bytes, i.e. an accepted stream of
            // only 11-20 compressed bytes
            let run = vec![rng.below(256) as u8; rng.range(1025, 2600) as usize];
            let c = match rng.below(3) {
                0 => Compressor::Zlib { level: *rng.pick(&[6, 9]), strategy: 0, window_bits: 15, mem_level: 8 },
                1 => Compressor::Libdeflate { level: rng.range(1, 12) as i32 },
                _ => Compressor::Miniz { level: rng.range(1, 10) as u8 },
            };
            let raw = c.compress(&run);
            let w = Wrapper::random(rng);
            let wrapped = wrap(rng, &w, &raw, &run);
            file.extend_from_slice(&wrapped);
            members.push(Member { compressor: c, wrapper: w, plain_len: run.len(), raw_len: raw.len() });
            junk(rng, &mut file);
        }
        if rng.chance(1, 4) {
            // a tiny member: a valid wrapped stream whose plaintext is below the scanner's
            // acceptance threshold (probed successfully, then left as literal bytes)
            let tiny_len = rng.range(20, 1000) as usize;
            let tiny = gen_plaintext(rng, tiny_len);
            let tiny = &tiny[..tiny.len().min(1000)];
            let c = Compressor::random(rng);
            let raw = c.compress(tiny);
            let w = match rng.below(3) {
                0 => Wrapper::Zlib(rng.below(4) as u8),
                1 => Wrapper::Gzip(0),
                _ => Wrapper::Zip(3, 0),
            };
            let wrapped = wrap(rng, &w, &raw, tiny);
            file.extend_from_slice(&wrapped);
            members.push(Member {
                compressor: c,
                wrapper: w,
                plain_len: tiny.len(),
                raw_len: raw.len(),
            });
        }
        if rng.chance(1, 6) {
            // a long literal stretch (exercises the 64 KiB literal copy loop when large)
            let n = if rng.chance(1, 4) { rng.range(60000, 140000) } else { rng.range(100, 3000) } as usize;
            let start = file.len();
            file.resize(start + n, 0);
            rng.fill(&mut file[start..]);
            // noise must not contain accidental signatures that the pinned tree panics on: keep it 7-bit
            for b in file[start..].iter_mut() {
                *b = 0x20 + (*b % 0x50);
                if *b == b'P' || *b == b'I' || *b == 0x78 {
                    *b = b'.';
                }
            }
        }
    }
    Workload { file, members }
}

/// a single raw deflate stream with its plaintext
pub fn gen_stream(rng: &mut Rng, min_plain: usize, max_plain: usize) -> (Compressor, Vec<u8>, Vec<u8>) {
    let target = rng.range(min_plain as u64, max_plain as u64) as usize;
    let plain = if rng.chance(1, 12) {
        // window-limit distances; the window is chosen so that the text stays near the size class
        let w = if max_plain >= 70000 { rng.range(9, 15) } else if max_plain >= 9000 { rng.range(9, 12) } else { 9 } as u32;
        gen_boundary_distance_plaintext(rng, w, 60)
    } else {
        gen_plaintext(rng, target)
    };
    let compressor = if rng.chance(1, 5) {
        // lazy matching with a tiny symbol buffer: a block boundary every 127-255 tokens, many of
        // them right after a deferred match
        Compressor::Zlib {
            level: rng.range(4, 9) as i32,
            strategy: 0,
            window_bits: 15,
            mem_level: rng.range(1, 2) as i32,
        }
    } else {
        Compressor::random(rng)
    };
    let raw = compressor.compress(&plain);
    (compressor, plain, raw)
}

/// incompressible bytes that contain no wrapper signature (0x78, 'P', 0x1f, 'I' are replaced), so
/// that the scanner probes nothing and the expanded form is one literal chunk of `len` bytes
pub fn gen_incompressible(rng: &mut Rng, len: usize) -> Vec<u8> {
    let mut v = vec![0u8; len];
    rng.fill(&mut v);
    for b in v.iter_mut() {
        if matches!(*b, 0x78 | 0x50 | 0x1f | 0x49) {
            *b ^= 0x80;
        }
    }
    v
}

/// container-like sample files shipped with the repository (used by the thorough tiers as
/// additional, real-world workloads)
pub const SAMPLE_FILES: [&str; 7] = [
    "samplezip.zip",
    "treegdi.png",
    "sample1.bin.gz",
    "samplepptx.pptx",
    "file-sample_1MB.docx",
    "starcontrol.samplesave",
    "skiplengthcrash.bin",
];

pub fn sample_file(i: usize) -> Option<Vec<u8>> {
    std::fs::read(format!("/repo/samples/{}", SAMPLE_FILES[i % SAMPLE_FILES.len()])).ok()
}

/// plaintext whose repeats sit at distances around the limits compressors and the predictor
/// care about (2^w - 262 and 2^w for a seeded w, +-2), separated by fresh noise so that no
/// nearer match exists
pub fn gen_boundary_distance_plaintext(rng: &mut Rng, w: u32, rounds: usize) -> Vec<u8> {
    let wsize = 1usize << w;
    let mut out: Vec<u8> = Vec::with_capacity(wsize * 2 + rounds * 128);
    // a prefix of incompressible but 7-bit bytes longer than the window
    let prefix = wsize + 600;
    let mut tmp = vec![0u8; prefix];
    rng.fill(&mut tmp);
    for b in tmp.iter_mut() {
        *b = 0x20 + (*b % 0x5f);
    }
    out.extend_from_slice(&tmp);
    let dists: Vec<i64> = {
        let mut v = Vec::new();
        for base in [wsize as i64 - 262, wsize as i64, wsize as i64 - 261, wsize as i64 / 2] {
            for d in -2i64..=2 {
                v.push(base + d);
            }
        }
        v
    };
    for _ in 0..rounds {
        let d = *rng.pick(&dists);
        if d < 1 || d as usize > out.len() {
            continue;
        }
        let len = rng.range(3, 48) as usize;
        let from = out.len() - d as usize;
        for k in 0..len {
            let b = out[from + k];
            out.push(b);
        }
        // fresh noise between the copies
        let n = rng.range(1, 40) as usize;
        for _ in 0..n {
            out.push(0x20 + (rng.below(0x5f) as u8));
        }
    }
    out
}

/// plaintext of about 100 KiB whose only repeats are far ones (distance 32400..32768) and sit in
/// the bands around offsets 65032 and 97288, where the predictor's 16-bit hash-chain positions
/// are slid down (`reshift`): the entries that survive the slide decide whether such a match is
/// still predicted. Returned with a compressor that uses the whole window.
pub fn gen_reshift_band_stream(rng: &mut Rng) -> (Compressor, Vec<u8>, Vec<u8>) {
    let total = 97288 + rng.range(500, 3000) as usize;
    let mut out: Vec<u8> = Vec::with_capacity(total + 64);
    let bands: [(usize, usize); 2] = [(65032 - 700, 65032 + 400), (97288 - 700, 97288 + 400)];
    while out.len() < total {
        let pos = out.len();
        let in_band = bands.iter().any(|&(a, b)| pos >= a && pos < b);
        if in_band && rng.chance(4, 5) {
            let d = rng.range(32400, 32768) as usize;
            let len = rng.range(3, 70) as usize;
            let from = pos - d;
            for k in 0..len {
                let b = out[from + k];
                out.push(b);
            }
            for _ in 0..rng.range(1, 5) {
                out.push(0x80 + rng.below(0x7f) as u8);
            }
        } else {
            // 7-bit noise in pieces (no repeats of length 3 in practice)
            for _ in 0..rng.range(8, 64) {
                out.push(0x20 + rng.below(0x5f) as u8);
            }
        }
    }
    let c = match rng.below(4) {
        0 => Compressor::Libdeflate { level: rng.range(1, 12) as i32 },
        1 => Compressor::Miniz { level: rng.range(1, 9) as u8 },
        2 => Compressor::ZlibNg { level: rng.range(1, 9) as i32 },
        _ => {
            let mut p = crate::lz77::Lz77Params::random(rng);
            p.window_bits = 15;
            p.very_far = true;
            p.max_dist_3 = 32768;
            p.block_tokens = p.block_tokens.max(16);
            p.literals_only = false;
            Compressor::Lz77(p)
        }
    };
    let raw = c.compress(&out);
    (c, out, raw)
}

/// one dynamic-Huffman block with far more than 65535 symbols: 140-300 KB of skewed 7-bit noise
/// (no matches, 6-6.6 bits per symbol, so neither a stored nor a fixed block pays) compressed by
/// libdeflate, whose blocks are limited by input length (300 000 bytes), not by symbol count
pub fn gen_big_dynamic_block_stream(rng: &mut Rng) -> (Compressor, Vec<u8>, Vec<u8>) {
    let n = rng.range(140_000, 300_000) as usize;
    let skew = rng.range(1, 3);
    let mut plain = Vec::with_capacity(n);
    for _ in 0..n {
        // minimum of `skew` draws: a monotone histogram, steeper with more draws
        let mut v = rng.below(0x5f);
        for _ in 1..skew {
            v = v.min(rng.below(0x5f));
        }
        plain.push(0x20 + v as u8);
    }
    let c = Compressor::Libdeflate { level: rng.range(1, 12) as i32 };
    let raw = c.compress(&plain);
    (c, plain, raw)
}

/// text that ends with a long match (length 250..=258, mostly 255..=258) which stops 0-3 bytes
/// before the end of the input: the last token, the look-ahead of lazy matching and the
/// "enough input left" tests of the match finder all meet here
pub fn gen_tail_match_stream(rng: &mut Rng) -> (Compressor, Vec<u8>, Vec<u8>) {
    let target = rng.range(3000, 14000) as usize;
    let mut plain = gen_plaintext(rng, target);
    if plain.len() < 600 {
        plain.resize(600, b'q');
    }
    let len = if rng.chance(3, 4) { rng.range(255, 258) } else { rng.range(250, 262) } as usize;
    let from = rng.range(0, (plain.len() - len - 1) as u64) as usize;
    let seg: Vec<u8> = plain[from..from + len].to_vec();
    let next = plain[from + len];
    // a byte that differs from the byte in front of the source, so that no longer match starts earlier
    if from > 0 {
        let b = plain[from - 1] ^ 0x55;
        plain.push(b);
    }
    plain.extend_from_slice(&seg);
    let tail = rng.range(0, 3) as usize;
    for k in 0..tail {
        // the first tail byte ends the match
        plain.push(if k == 0 { next ^ 0x2a } else { rng.below(256) as u8 });
    }
    let c = match rng.below(5) {
        0 | 1 => Compressor::Zlib {
            level: rng.range(4, 9) as i32,
            strategy: 0,
            window_bits: 15,
            mem_level: rng.range(7, 9) as i32,
        },
        _ => Compressor::random(rng),
    };
    let raw = c.compress(&plain);
    (c, plain, raw)
}

/// the streams that the compressors write for an empty input (plaintext of size 0)
pub fn gen_empty_plaintext_stream(rng: &mut Rng) -> (Compressor, Vec<u8>, Vec<u8>) {
    let c = Compressor::random(rng);
    let raw = c.compress(&[]);
    (c, Vec::new(), raw)
}

/// a torn upload: a little junk, then one zlib- or gzip-wrapped member that sits at the very end
/// of the file with the last 1-4 (zlib) or 1-8 (gzip) bytes of its trailer missing
pub fn gen_cut_trailer_file(rng: &mut Rng) -> Vec<u8> {
    let plain_len = rng_range(rng, 1100, 7000);
    let plain = gen_plaintext(rng, plain_len);
    let raw = Compressor::random(rng).compress(&plain);
    let mut out = Vec::new();
    for _ in 0..rng.below(40) {
        out.push(0x80 | rng.below(0x7f) as u8);
    }
    if rng.chance(1, 4) {
        // a complete member in front
        let w = Wrapper::Zlib(rng.below(4) as u8);
        let m = wrap(rng, &w, &raw, &plain);
        out.extend_from_slice(&m);
        for _ in 0..rng.below(9) {
            out.push(0x80 | rng.below(0x7f) as u8);
        }
    }
    let (w, max_cut) = if rng.chance(2, 3) { (Wrapper::Zlib(rng.below(4) as u8), 4) } else { (Wrapper::Gzip(0), 8) };
    let m = wrap(rng, &w, &raw, &plain);
    let cut = rng.range(1, max_cut) as usize;
    out.extend_from_slice(&m[..m.len() - cut]);
    out
}

/// a file whose single member compresses better than 258:1 (a run or a short period of
/// `plain_len` bytes), wrapped without junk: the file is tiny compared with its expanded form
pub fn gen_high_ratio_file(rng: &mut Rng, plain_len: usize) -> Vec<u8> {
    let p = rng.range(1, 4) as usize;
    let pat: Vec<u8> = (0..p).map(|_| b'a' + rng.below(26) as u8).collect();
    let plain: Vec<u8> = (0..plain_len).map(|i| pat[i % p]).collect();
    let c = match rng.below(3) {
        0 => Compressor::Zlib {
            level: *rng.pick(&[6, 9]),
            strategy: 0,
            window_bits: 15,
            mem_level: 8,
        },
        1 => Compressor::Libdeflate { level: rng.range(6, 12) as i32 },
        _ => Compressor::ZlibNg { level: rng.range(6, 9) as i32 },
    };
    let raw = c.compress(&plain);
    let w = match rng.below(3) {
        0 => Wrapper::Zlib(2),
        1 => Wrapper::Gzip(0),
        _ => Wrapper::Zip(4, 0),
    };
    wrap(rng, &w, &raw, &plain)
}

/// a file whose expanded form has a chunk boundary exactly at a multiple of 128 KiB (zstd's
/// block size): incompressible literal bytes sized so that the tag of the following stream chunk
/// lands on the boundary, then a zlib-wrapped member
pub fn gen_block_aligned_file(rng: &mut Rng, blocks: usize) -> Vec<u8> {
    // expanded form: version byte, literal tag, 3 byte varint, literal (noise + 2 byte zlib header)
    let literal = blocks * 128 * 1024 - 5;
    let mut f = gen_incompressible(rng, literal - 2);
    let plain = gen_plaintext(rng, 2200);
    let raw = Compressor::Zlib {
        level: 6,
        strategy: 0,
        window_bits: 15,
        mem_level: 8,
    }
    .compress(&plain);
    f.extend_from_slice(&wrap(rng, &Wrapper::Zlib(2), &raw, &plain));
    f
}

/// end offsets of the blocks of the first frame of a zstd blob (harness-owned parser of the
/// frame and block headers; used only to place torn-write cuts)
pub fn zstd_block_ends(blob: &[u8]) -> Vec<usize> {
    let mut v = Vec::new();
    if blob.len() < 6 || blob[0..4] != [0x28, 0xb5, 0x2f, 0xfd] {
        return v;
    }
    let fhd = blob[4];
    let fcs_flag = fhd >> 6;
    let single_segment = (fhd >> 5) & 1;
    let dict_flag = fhd & 3;
    let mut p = 5usize;
    if single_segment == 0 {
        p += 1; // window descriptor
    }
    p += [0usize, 1, 2, 4][dict_flag as usize];
    p += match fcs_flag {
        0 => single_segment as usize,
        1 => 2,
        2 => 4,
        _ => 8,
    };
    loop {
        if p + 3 > blob.len() {
            break;
        }
        let h = blob[p] as usize | (blob[p + 1] as usize) << 8 | (blob[p + 2] as usize) << 16;
        let last = h & 1;
        let btype = (h >> 1) & 3;
        let size = h >> 3;
        p += 3 + if btype == 1 { 1 } else { size };
        if p > blob.len() {
            break;
        }
        v.push(p);
        if last == 1 {
            break;
        }
    }
    v
}

/// a file that is LARGER than its expanded form: noise stored in many small stored blocks
/// (zlib level 0-3, memLevel 1-2), wrapped as zlib or as PNG IDAT chunks
pub fn gen_file_larger_than_expanded(rng: &mut Rng) -> Vec<u8> {
    let n = rng.range(8_000, 60_000) as usize;
    let mut plain = vec![0u8; n];
    rng.fill(&mut plain);
    let c = Compressor::Zlib {
        level: rng.range(0, 3) as i32,
        strategy: 0,
        window_bits: 15,
        mem_level: rng.range(1, 2) as i32,
    };
    let raw = c.compress(&plain);
    let w = if rng.chance(1, 2) { Wrapper::Zlib(0) } else { Wrapper::Png(rng.range(2, 5) as u8) };
    wrap(rng, &w, &raw, &plain)
}

/// a signature-free literal file whose expanded form has exactly `expanded` bytes
/// (version byte + literal tag + varint + content)
pub fn gen_file_with_expanded_size(expanded: usize) -> Vec<u8> {
    // varint length of the content length
    let mut content = expanded.saturating_sub(3);
    for _ in 0..4 {
        let mut vl = 1;
        let mut v = content >> 7;
        while v > 0 {
            vl += 1;
            v >>= 7;
        }
        let c2 = expanded.saturating_sub(2 + vl);
        if c2 == content {
            break;
        }
        content = c2;
    }
    let pat = b"All work and no play makes Jack a dull boy. 0123456789 ";
    let mut f = Vec::with_capacity(content);
    while f.len() < content {
        let n = (content - f.len()).min(pat.len());
        f.extend_from_slice(&pat[..n]);
    }
    for b in f.iter_mut() {
        if matches!(*b, 0x78 | 0x50 | 0x1f | 0x49) {
            *b = b'_';
        }
    }
    f
}

/// one fixed-Huffman block with more than 2^20 literal tokens (encoders that write the whole
/// input as a single block do this), plus its plaintext
pub fn gen_giant_block_stream(rng: &mut Rng) -> (Compressor, Vec<u8>, Vec<u8>) {
    let n = (1usize << 20) + rng.range(1, 300_000) as usize;
    let mut plain = vec![0u8; n];
    rng.fill(&mut plain);
    for b in plain.iter_mut() {
        *b = b'a' + (*b % 26);
    }
    let mut p = crate::lz77::Lz77Params::random(rng);
    p.literals_only = true;
    p.block_tokens = usize::MAX / 2;
    p.stored_every = 0;
    p.empty_run = 0;
    let raw = crate::lz77::encode(&plain, &p);
    (Compressor::Lz77(p), plain, raw)
}

/// a PNG-like file whose IDAT chunking is awkward on purpose: the first chunk holds only part
/// of the 2 byte zlib header and/or the last chunk only 1-3 bytes of the Adler-32 (what writers
/// with a fixed IDAT chunk size produce now and then), surrounded by a little junk
pub fn gen_png_edge_file(rng: &mut Rng) -> Vec<u8> {
    let (plain, raw) = if rng.chance(1, 2) {
        // at the scanner's acceptance threshold (1024) from both sides, with a stream that is
        // longer than its plaintext: incompressible bytes in stored blocks
        let n = rng_range(rng, 985, 1040);
        let mut plain = vec![0u8; n];
        rng.fill(&mut plain);
        let mut p = crate::lz77::Lz77Params::random(rng);
        p.stored_every = 1;
        p.empty_run = 0;
        p.block_tokens = p.block_tokens.max(127);
        let raw = crate::lz77::encode(&plain, &p);
        (plain, raw)
    } else {
        let plain_len = rng_range(rng, 1100, 9000);
        let plain = gen_plaintext(rng, plain_len);
        let raw = Compressor::random(rng).compress(&plain);
        (plain, raw)
    };
    let mut z = Vec::with_capacity(raw.len() + 6);
    z.push(0x78);
    z.push(*rng.pick(&[0x01u8, 0x5e, 0x9c, 0xda]));
    z.extend_from_slice(&raw);
    z.extend_from_slice(&adler32(&plain).to_be_bytes());
    let mut cuts: Vec<usize> = Vec::new();
    if rng.chance(1, 2) {
        cuts.push(1);
    }
    for _ in 0..rng.below(3) {
        cuts.push(rng.range(2, (z.len() - 5) as u64) as usize);
    }
    cuts.push(z.len() - rng.range(1, 3) as usize);
    cuts.sort();
    cuts.dedup();
    cuts.push(z.len());
    let mut out = Vec::new();
    out.extend_from_slice(&[0x89, b'P' ^ 0x20, b'N', b'G', 0x0d, 0x0a, 0x1a, 0x0a]);
    let mut start = 0usize;
    for &c in cuts.iter() {
        let piece = &z[start..c];
        out.extend_from_slice(&(piece.len() as u32).to_be_bytes());
        out.extend_from_slice(b"IDAT");
        out.extend_from_slice(piece);
        let mut h = crc32fast::Hasher::new();
        h.update(b"IDAT");
        h.update(piece);
        out.extend_from_slice(&h.finalize().to_be_bytes());
        start = c;
    }
    out.extend_from_slice(&[0, 0, 0, 0]);
    out.extend_from_slice(b"IEND");
    out.extend_from_slice(&[0xae, 0x42, 0x60, 0x82]);
    out
}

fn rng_range(rng: &mut Rng, lo: u64, hi: u64) -> usize {
    rng.range(lo, hi) as usize
}

pub fn zlib_flushy(input: &[u8], level: i32, interval: usize, flushed: usize) -> Vec<u8> {
    use libz_sys::*;
    unsafe {
        let mut zs = std::mem::MaybeUninit::<z_stream>::uninit();
        std::ptr::write_bytes(zs.as_mut_ptr() as *mut u8, 0, std::mem::size_of::<z_stream>());
        let z = zs.as_mut_ptr();
        let rc = deflateInit2_(z, level, Z_DEFLATED, -15, 8, Z_DEFAULT_STRATEGY, zlibVersion(), std::mem::size_of::<z_stream>() as i32);
        assert_eq!(rc, Z_OK);
        let mut out: Vec<u8> = vec![0; input.len() * 2 + (flushed.min(input.len()) / interval.max(1) + 4) * 16 + 4096];
        (*z).next_out = out.as_mut_ptr();
        (*z).avail_out = out.len() as u32;
        let mut pos = 0usize;
        let limit = flushed.min(input.len());
        while pos < limit {
            let n = interval.max(1).min(limit - pos);
            (*z).next_in = input.as_ptr().add(pos) as *mut _;
            (*z).avail_in = n as u32;
            let rc = deflate(z, Z_SYNC_FLUSH);
            assert!(rc == Z_OK || rc == Z_BUF_ERROR, "flushy deflate rc={}", rc);
            pos += n;
        }
        (*z).next_in = input.as_ptr().add(pos) as *mut _;
        (*z).avail_in = (input.len() - pos) as u32;
        let rc = deflate(z, Z_FINISH);
        assert_eq!(rc, Z_STREAM_END, "flushy finish");
        out.truncate((*z).total_out as usize);
        deflateEnd(z);
        out
    }
}

/// literal-only stream whose first (non-final) block has 65536 + m tokens, m one of the block
/// sizes the estimator emits (token counts that only differ in the bits above 16)
pub fn gen_wraparound_block_stream(rng: &mut Rng) -> (Compressor, Vec<u8>, Vec<u8>) {
    let m = *rng.pick(&[16386usize, 127, 255, 511, 1023, 2047, 4095, 8191, 16383, 32767]);
    let first = 65536 + m;
    let n = first + rng.range(200, 6000) as usize;
    let mut plain = vec![0u8; n];
    rng.fill(&mut plain);
    for b in plain.iter_mut() {
        *b = b'a' + (*b % 26);
    }
    let mut p = crate::lz77::Lz77Params::random(rng);
    p.literals_only = true;
    p.block_tokens = first;
    p.stored_every = 0;
    p.empty_run = 0;
    let raw = crate::lz77::encode(&plain, &p);
    (Compressor::Lz77(p), plain, raw)
}
