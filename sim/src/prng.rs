//! The only source of randomness in the simulator: splitmix64 -> xoshiro256**.
//! Owned by the harness so that the sequence can never change under us.

pub const PHI: u64 = 0x9E37_79B9_7F4A_7C15;

#[inline]
pub fn splitmix64(x: u64) -> u64 {
    let mut z = x.wrapping_add(PHI);
    z = (z ^ (z >> 30)).wrapping_mul(0xBF58_476D_1CE4_E5B9);
    z = (z ^ (z >> 27)).wrapping_mul(0x94D0_49BB_1331_11EB);
    z ^ (z >> 31)
}

/// seed of run/job `i` under master seed `master`
pub fn derive(master: u64, i: u64) -> u64 {
    splitmix64(master ^ i.wrapping_mul(PHI))
}

#[derive(Clone, Debug)]
pub struct Rng {
    s: [u64; 4],
}

impl Rng {
    pub fn new(seed: u64) -> Self {
        let mut x = seed;
        let mut s = [0u64; 4];
        for v in s.iter_mut() {
            x = x.wrapping_add(PHI);
            *v = splitmix64(x);
        }
        if s == [0; 4] {
            s[0] = 1;
        }
        Rng { s }
    }

    #[inline]
    pub fn next_u64(&mut self) -> u64 {
        let result = self.s[1].wrapping_mul(5).rotate_left(7).wrapping_mul(9);
        let t = self.s[1] << 17;
        self.s[2] ^= self.s[0];
        self.s[3] ^= self.s[1];
        self.s[1] ^= self.s[2];
        self.s[0] ^= self.s[3];
        self.s[2] ^= t;
        self.s[3] = self.s[3].rotate_left(45);
        result
    }

    /// uniform in 0..n (n > 0)
    #[inline]
    pub fn below(&mut self, n: u64) -> u64 {
        debug_assert!(n > 0);
        // multiply-shift; bias is irrelevant for simulation purposes but the mapping is fixed
        ((self.next_u64() as u128 * n as u128) >> 64) as u64
    }

    #[inline]
    pub fn range(&mut self, lo: u64, hi_inclusive: u64) -> u64 {
        assert!(lo <= hi_inclusive, "harness: empty range {}..={}", lo, hi_inclusive);
        lo + self.below(hi_inclusive - lo + 1)
    }

    #[inline]
    pub fn usize_below(&mut self, n: usize) -> usize {
        self.below(n as u64) as usize
    }

    #[inline]
    pub fn chance(&mut self, num: u64, den: u64) -> bool {
        self.below(den) < num
    }

    pub fn pick<'a, T>(&mut self, xs: &'a [T]) -> &'a T {
        &xs[self.usize_below(xs.len())]
    }

    pub fn fill(&mut self, buf: &mut [u8]) {
        for chunk in buf.chunks_mut(8) {
            let v = self.next_u64().to_le_bytes();
            chunk.copy_from_slice(&v[..chunk.len()]);
        }
    }

    pub fn fork(&mut self) -> Rng {
        Rng::new(self.next_u64())
    }
}

/// FNV-1a style 64-bit fold used for event-log digests and plan keys
#[derive(Clone, Copy, Debug)]
pub struct Digest(pub u64);

impl Default for Digest {
    fn default() -> Self {
        Digest(0xcbf2_9ce4_8422_2325)
    }
}

impl Digest {
    #[inline]
    pub fn u64(&mut self, v: u64) {
        self.0 = splitmix64(self.0 ^ v);
    }
    pub fn bytes(&mut self, b: &[u8]) {
        self.u64(b.len() as u64);
        let mut h = 0xcbf2_9ce4_8422_2325u64;
        for &x in b {
            h ^= x as u64;
            h = h.wrapping_mul(0x0000_0100_0000_01B3);
        }
        self.u64(h);
    }
    pub fn str(&mut self, s: &str) {
        self.bytes(s.as_bytes());
    }
}

pub fn hash_bytes(b: &[u8]) -> u64 {
    let mut d = Digest::default();
    d.bytes(b);
    d.0
}
