//! Supervisor: runs jobs in worker processes, attributes crashes and stalls to the in-flight
//! run, proves determinism on a sample, confirms violations by replay in a fresh process,
//! matches known findings and writes the evidence file.
//!
//! Wall-clock is read only here (budgets, watchdog, evidence) and never influences a run.

use crate::engine::*;
use crate::json::{self, J};
use std::collections::BTreeMap;
use std::io::{BufRead, BufReader, Write};
use std::path::{Path, PathBuf};
use std::process::{Child, Command, Stdio};
use std::sync::atomic::{AtomicU64, Ordering};
use std::sync::mpsc;
use std::sync::{Arc, Mutex};
use std::time::{Duration, Instant};

pub struct Options {
    pub root: PathBuf,
    pub tier: Tier,
    pub master_seed: u64,
    pub workers: usize,
    pub exe: PathBuf,
}

struct Worker {
    child: Child,
    rx: mpsc::Receiver<String>,
}

fn spawn_worker(opts: &Options, engine: &dyn Engine, trace: bool) -> std::io::Result<Worker> {
    let stdout = std::fs::OpenOptions::new().write(true).open(engine.worker_stdout())?;
    let mut cmd = Command::new(&opts.exe);
    cmd.arg("worker")
        .arg(engine.info().property)
        .arg(opts.tier.name())
        .arg(opts.master_seed.to_string())
        .arg(if trace { "trace" } else { "notrace" })
        .arg("--root")
        .arg(&opts.root)
        .stdin(Stdio::piped())
        .stdout(Stdio::from(stdout))
        .stderr(Stdio::piped());
    let mut child = cmd.spawn()?;
    let stderr = child.stderr.take().unwrap();
    let (tx, rx) = mpsc::channel();
    std::thread::spawn(move || {
        let r = BufReader::new(stderr);
        for line in r.lines() {
            match line {
                Ok(l) => {
                    if tx.send(l).is_err() {
                        break;
                    }
                }
                Err(_) => break,
            }
        }
    });
    Ok(Worker { child, rx })
}

enum JobOutcome {
    Done(JobResult),
    /// worker died or stalled; last announced run (trace mode only) and diagnostics
    Died {
        stalled: bool,
        last_run: Option<J>,
        noise: Vec<String>,
    },
}

fn run_one_job(w: &mut Worker, job: u64, timeout: Duration) -> JobOutcome {
    let mut noise: Vec<String> = Vec::new();
    let mut last_run: Option<J> = None;
    let sent = {
        let stdin = w.child.stdin.as_mut();
        match stdin {
            Some(s) => writeln!(s, "JOB {}", job).and_then(|_| s.flush()).is_ok(),
            None => false,
        }
    };
    if !sent {
        let _ = w.child.kill();
        let _ = w.child.wait();
        return JobOutcome::Died {
            stalled: false,
            last_run,
            noise,
        };
    }
    let deadline = Instant::now() + timeout;
    loop {
        let now = Instant::now();
        if now >= deadline {
            let _ = w.child.kill();
            let _ = w.child.wait();
            return JobOutcome::Died {
                stalled: true,
                last_run,
                noise,
            };
        }
        match w.rx.recv_timeout(deadline - now) {
            Ok(line) => {
                if let Some(rest) = line.strip_prefix("@@ RESULT ") {
                    match json::parse(rest).ok().and_then(|j| JobResult::from_json(&j)) {
                        Some(r) => return JobOutcome::Done(r),
                        None => {
                            noise.push(format!("unparsable result line ({} bytes)", rest.len()));
                        }
                    }
                } else if let Some(rest) = line.strip_prefix("@@ RUN ") {
                    last_run = json::parse(rest).ok();
                } else if noise.len() < 40 {
                    noise.push(line);
                }
            }
            Err(mpsc::RecvTimeoutError::Timeout) => continue,
            Err(mpsc::RecvTimeoutError::Disconnected) => {
                let _ = w.child.kill();
                let _ = w.child.wait();
                return JobOutcome::Died {
                    stalled: false,
                    last_run,
                    noise,
                };
            }
        }
    }
}

fn stop_worker(mut w: Worker) {
    drop(w.child.stdin.take());
    // give it a moment to exit on EOF, then kill
    for _ in 0..50 {
        if let Ok(Some(_)) = w.child.try_wait() {
            return;
        }
        std::thread::sleep(Duration::from_millis(10));
    }
    let _ = w.child.kill();
    let _ = w.child.wait();
}

pub struct Known {
    pub known: Vec<(String, String, String)>, // property, key, what
    pub fixed: Vec<String>,
}

pub fn load_known(root: &Path) -> Known {
    let mut k = Known {
        known: Vec::new(),
        fixed: Vec::new(),
    };
    let p = root.join("known_findings.json");
    if let Ok(s) = std::fs::read_to_string(&p) {
        if let Ok(j) = json::parse(&s) {
            if let Some(a) = j.get_arr("findings") {
                for f in a {
                    let status = f.get_str("status").unwrap_or("");
                    if status == "known" {
                        k.known.push((
                            f.get_str("property").unwrap_or("").to_string(),
                            f.get_str("key").unwrap_or("").to_string(),
                            f.get_str("what").unwrap_or("").to_string(),
                        ));
                    }
                }
            }
            if let Some(a) = j.get_arr("fixed") {
                for f in a {
                    if let Some(s) = f.as_str() {
                        k.fixed.push(s.to_string());
                    }
                }
            }
        }
    }
    k
}

fn confirm_by_replay(opts: &Options, path: &Path, timeout: Duration) -> (bool, String) {
    // fresh process; exit 1 + "REPRODUCED clause=" means the violation reproduced
    let mut cmd = Command::new(&opts.exe);
    cmd.arg("replay").arg(path).arg("--root").arg(&opts.root).arg("--quiet");
    cmd.stdin(Stdio::null()).stdout(Stdio::piped()).stderr(Stdio::null());
    let mut child = match cmd.spawn() {
        Ok(c) => c,
        Err(e) => return (false, format!("spawn failed: {}", e)),
    };
    let start = Instant::now();
    loop {
        match child.try_wait() {
            Ok(Some(st)) => {
                let mut out = String::new();
                if let Some(mut o) = child.stdout.take() {
                    use std::io::Read;
                    let _ = o.read_to_string(&mut out);
                }
                return (st.code() == Some(1), out);
            }
            Ok(None) => {
                if start.elapsed() > timeout {
                    let _ = child.kill();
                    let _ = child.wait();
                    return (false, "replay timed out".to_string());
                }
                std::thread::sleep(Duration::from_millis(20));
            }
            Err(e) => return (false, format!("wait failed: {}", e)),
        }
    }
}

pub fn run_check(engine: &dyn Engine, opts: &Options) -> i32 {
    let info = engine.info();
    let started = Instant::now();
    println!(
        "VERIF_SEED={} property={} tier={} engine={} workers={}",
        opts.master_seed,
        info.property,
        opts.tier.name(),
        info.name,
        opts.workers
    );
    let njobs = engine.jobs(opts.tier);
    let next = Arc::new(AtomicU64::new(0));
    let results: Arc<Mutex<BTreeMap<u64, JobResult>>> = Arc::new(Mutex::new(BTreeMap::new()));
    let anomalies: Arc<Mutex<Vec<(u64, bool, Vec<String>)>>> = Arc::new(Mutex::new(Vec::new()));
    let harness_errors: Arc<Mutex<Vec<String>>> = Arc::new(Mutex::new(Vec::new()));
    let timeout = Duration::from_secs(engine.job_timeout_s(opts.tier));
    let slowest = Arc::new(AtomicU64::new(0));

    std::thread::scope(|scope| {
        for _wid in 0..opts.workers.min(njobs.max(1) as usize) {
            let next = next.clone();
            let results = results.clone();
            let anomalies = anomalies.clone();
            let harness_errors = harness_errors.clone();
            let slowest = slowest.clone();
            scope.spawn(move || {
                let mut worker: Option<Worker> = None;
                loop {
                    let job = next.fetch_add(1, Ordering::SeqCst);
                    if job >= njobs {
                        break;
                    }
                    if worker.is_none() {
                        match spawn_worker(opts, engine, false) {
                            Ok(w) => worker = Some(w),
                            Err(e) => {
                                harness_errors.lock().unwrap().push(format!("cannot spawn worker: {}", e));
                                break;
                            }
                        }
                    }
                    let t0 = Instant::now();
                    match run_one_job(worker.as_mut().unwrap(), job, timeout) {
                        JobOutcome::Done(r) => {
                            let dt = t0.elapsed().as_millis() as u64;
                            slowest.fetch_max(dt, Ordering::SeqCst);
                            results.lock().unwrap().insert(job, r);
                        }
                        JobOutcome::Died { stalled, noise, .. } => {
                            worker = None;
                            anomalies.lock().unwrap().push((job, stalled, noise));
                        }
                    }
                }
                if let Some(w) = worker {
                    stop_worker(w);
                }
            });
        }
    });

    let mut results = Arc::try_unwrap(results).unwrap().into_inner().unwrap();
    let mut harness_errors = Arc::try_unwrap(harness_errors).unwrap().into_inner().unwrap();
    let anomalies = Arc::try_unwrap(anomalies).unwrap().into_inner().unwrap();
    let mut extra_violations: Vec<Violation> = Vec::new();
    let mut unreproducible_deaths = 0u64;

    // crash / stall attribution: re-run the job in a fresh child in trace mode
    for (job, stalled, noise) in anomalies {
        println!(
            "worker {} during job {}; re-running in trace mode",
            if stalled { "stalled" } else { "died" },
            job
        );
        for l in noise.iter().take(12) {
            println!("  worker said: {}", l);
        }
        let t2 = if stalled { timeout * 2 } else { timeout };
        match spawn_worker(opts, engine, true) {
            Ok(mut w) => match run_one_job(&mut w, job, t2) {
                JobOutcome::Done(r) => {
                    stop_worker(w);
                    unreproducible_deaths += 1;
                    println!("  job {} completed on re-run: anomaly not reproducible (logged, not a violation)", job);
                    results.insert(job, r);
                }
                JobOutcome::Died {
                    stalled: st2,
                    last_run,
                    noise,
                } => {
                    let clause = if st2 { "stall" } else { "process_died" };
                    if noise.iter().any(|l| l.starts_with("harness panic")) {
                        harness_errors.push(format!("job {}: {}", job, noise.iter().find(|l| l.starts_with("harness panic")).unwrap()));
                        continue;
                    }
                    match last_run {
                        Some(mut doc) => {
                            doc.put("clause", J::str(clause));
                            let key = format!(
                                "{}:{}:{}",
                                clause,
                                doc.get_str("workload_hash").unwrap_or("?"),
                                doc.get_str("plan_key").unwrap_or("?")
                            );
                            let what = format!(
                                "{} ({}): {}",
                                clause,
                                if st2 { "no progress within the doubled budget" } else { "worker process terminated abnormally" },
                                noise.iter().rev().take(3).cloned().collect::<Vec<_>>().join(" | ")
                            );
                            extra_violations.push(Violation {
                                clause: clause.to_string(),
                                key,
                                what,
                                replay: doc,
                            });
                        }
                        None => {
                            harness_errors.push(format!(
                                "job {} {} reproducibly but announced no run (harness defect): {:?}",
                                job,
                                if st2 { "stalled" } else { "died" },
                                noise.iter().rev().take(3).collect::<Vec<_>>()
                            ));
                        }
                    }
                }
            },
            Err(e) => harness_errors.push(format!("cannot spawn trace worker: {}", e)),
        }
    }

    // determinism sample: re-execute a few jobs in a fresh single worker and compare digests
    let det_jobs: Vec<u64> = {
        let n = match opts.tier {
            Tier::Quick => 3u64,
            Tier::Thorough => 12u64,
        };
        let stride = (njobs / n.max(1)).max(1);
        (0..n).map(|i| (i * stride) % njobs.max(1)).filter(|j| results.contains_key(j)).collect()
    };
    let mut det_checked = 0u64;
    let mut det_mismatch = 0u64;
    if !det_jobs.is_empty() {
        if let Ok(mut w) = spawn_worker(opts, engine, false) {
            for &job in det_jobs.iter() {
                match run_one_job(&mut w, job, timeout) {
                    JobOutcome::Done(r2) => {
                        det_checked += 1;
                        let r1 = &results[&job];
                        if r1.digest != r2.digest || r1.evaluations != r2.evaluations {
                            det_mismatch += 1;
                            harness_errors.push(format!(
                                "nondeterminism: job {} digest {:016x} vs {:016x} (evaluations {} vs {})",
                                job, r1.digest, r2.digest, r1.evaluations, r2.evaluations
                            ));
                        }
                    }
                    JobOutcome::Died { .. } => {
                        harness_errors.push(format!("determinism re-run of job {} died", job));
                        break;
                    }
                }
            }
            stop_worker(w);
        }
    }

    // merge
    let mut total = JobResult::default();
    let mut digest = crate::prng::Digest::default();
    let mut samples: Vec<J> = Vec::new();
    let mut violations: Vec<Violation> = extra_violations;
    for (job, r) in results.iter() {
        total.evaluations += r.evaluations;
        total.steps += r.steps;
        total.distinct += r.distinct;
        for (k, v) in r.counters.iter() {
            *total.counters.entry(k.clone()).or_insert(0) += v;
        }
        digest.u64(*job);
        digest.u64(r.digest);
        if samples.len() < 5 {
            for s in r.samples.iter() {
                if samples.len() < 5 {
                    samples.push(s.clone());
                }
            }
        }
        for v in r.violations.iter() {
            violations.push(v.clone());
        }
        for n in r.notes.iter() {
            if !total.notes.contains(n) {
                total.notes.push(n.clone());
            }
        }
    }
    if samples.is_empty() {
        // jobs stopped early (violations) before recording a per-run sample: describe a job instead
        if let Some((job, r)) = results.iter().next() {
            samples.push(
                J::obj()
                    .set("job", J::u(*job))
                    .set("evaluations", J::u(r.evaluations))
                    .set("violations_in_job", J::Arr(r.violations.iter().take(2).map(|v| J::obj().set("clause", J::str(&v.clause)).set("what", J::str(&v.what))).collect()))
                    .set("note", J::str("no per-run sample was recorded because the jobs stopped early")),
            );
        }
    }
    if (results.len() as u64) < njobs && harness_errors.is_empty() && violations.is_empty() {
        harness_errors.push(format!("only {} of {} jobs produced a result", results.len(), njobs));
    }

    // thorough-only extra arm
    let mut extra_evidence = J::Null;
    if opts.tier == Tier::Thorough && std::env::var("VERIF_SKIP_EXTRA").is_err() {
        if let Some(x) = engine.thorough_extra(&ExtraCtx {
            root: opts.root.clone(),
            master_seed: opts.master_seed,
            workers: opts.workers,
        }) {
            println!("extra arm '{}': {} executions, {} violation(s)", x.name, x.evaluations, x.violations.len());
            total.evaluations += x.evaluations;
            extra_evidence = x.evidence;
            violations.extend(x.violations);
            harness_errors.extend(x.harness_errors);
        }
    }

    // findings
    let known = load_known(&opts.root);
    let mut reported: Vec<(String, PathBuf)> = Vec::new();
    let mut known_matched: Vec<String> = Vec::new();
    let mut unconfirmed = 0u64;
    let mut seen_keys: Vec<String> = Vec::new();
    let replay_dir = opts.root.join("replays");
    let _ = std::fs::create_dir_all(&replay_dir);
    for v in violations.iter() {
        if seen_keys.contains(&v.key) {
            continue;
        }
        seen_keys.push(v.key.clone());
        if let Some(k) = known.known.iter().find(|k| k.0 == info.property && k.1 == v.key) {
            let line = format!("KNOWN-FINDING: property={} {} [{}]", info.property, k.2, v.key);
            if !known_matched.contains(&line) {
                println!("{}", line);
                known_matched.push(line);
            }
            continue;
        }
        if reported.len() >= 8 {
            continue;
        }
        let name = format!("{}-{:016x}.json", info.property, crate::prng::hash_bytes(v.key.as_bytes()));
        let path = replay_dir.join(name);
        let mut doc = v.replay.clone();
        doc.put("property", J::str(info.property));
        doc.put("clause", J::str(&v.clause));
        doc.put("key", J::str(&v.key));
        doc.put("what", J::str(&v.what));
        doc.put("verif_seed", J::u(opts.master_seed));
        if std::fs::write(&path, doc.to_pretty()).is_err() {
            harness_errors.push(format!("cannot write replay file {}", path.display()));
            continue;
        }
        let (ok, out) = confirm_by_replay(opts, &path, timeout * 2 + Duration::from_secs(30));
        if ok {
            println!("violation: {} :: {}", v.clause, v.what);
            println!("VIOLATION property={} replay={}", info.property, path.display());
            reported.push((v.key.clone(), path));
        } else {
            unconfirmed += 1;
            harness_errors.push(format!(
                "violation '{}' ({}) did not reproduce on replay in a fresh process: {}",
                v.clause,
                v.key,
                out.lines().last().unwrap_or("")
            ));
        }
    }

    let wall = started.elapsed().as_secs_f64();

    // evidence
    let mut probes_zero: Vec<String> = Vec::new();
    for p in engine.expected_probes(opts.tier) {
        if total.counters.get(p).copied().unwrap_or(0) == 0 {
            probes_zero.push(p.to_string());
            println!("warning: reach probe '{}' stayed at zero", p);
        }
    }
    let mut faults = Vec::new();
    let mut probes = Vec::new();
    let mut outcomes = Vec::new();
    let mut other = Vec::new();
    let mut states = Vec::new();
    for (k, v) in total.counters.iter() {
        let e = (k.clone(), J::u(*v));
        if k.starts_with("st.") {
            states.push(e);
        } else if k.starts_with("fault.") {
            faults.push(e);
        } else if k.starts_with("probe.") {
            probes.push(e);
        } else if k.starts_with("outcome.") {
            outcomes.push(e);
        } else {
            other.push(e);
        }
    }
    let coverage = J::obj()
        .set("evaluations", J::u(total.evaluations.max(if results.is_empty() { 0 } else { 1 })))
        .set("distinct_nontrivial", J::u(total.distinct))
        .set("rule", J::str(info.rule))
        .set("samples", J::Arr(samples))
        .set("exhaustive", J::Bool(false))
        .set(
            "seeds",
            J::obj()
                .set("VERIF_SEED", J::u(opts.master_seed))
                .set("derivation", J::str("job j runs under splitmix64(VERIF_SEED xor j*0x9E3779B97F4A7C15) (xor an engine constant); every plan of the job is drawn from that"))
                .set("first_job_seed", J::Str(format!("{:016x}", crate::prng::derive(opts.master_seed, 0))))
                .set("last_job_seed", J::Str(format!("{:016x}", crate::prng::derive(opts.master_seed, njobs.saturating_sub(1)))))
                .set("jobs_per_hour", J::u(if wall > 0.0 { (results.len() as f64 * 3600.0 / wall) as u64 } else { 0 })),
        )
        .set("jobs", J::u(results.len() as u64))
        .set("slowest_job_ms", J::u(slowest.load(Ordering::SeqCst)))
        .set("steps_executed", J::u(total.steps))
        .set("runs_per_hour", J::u(if wall > 0.0 { (total.evaluations as f64 * 3600.0 / wall) as u64 } else { 0 }))
        .set(
            "simulated_time",
            J::str("not applicable: the code under test has no clock, timer or timeout; runs are measured in steps (steps_executed)"),
        )
        .set("fault_kinds_fired", J::Obj(faults))
        .set("reach_probes", J::Obj(probes))
        .set("reach_probes_at_zero", J::Arr(probes_zero.iter().map(|s| J::str(s)).collect()))
        .set("outcome_classes", J::Obj(outcomes))
        .set("other_counters", J::Obj(other))
        .set("state_measure", J::str(info.state_measure))
        .set("abstract_states_reached", J::u(states.len() as u64))
        .set("abstract_states", J::Obj(states))
        .set("run_digest", J::Str(format!("{:016x}", digest.0)))
        .set(
            "determinism",
            J::obj()
                .set("jobs_reexecuted_in_a_second_process", J::u(det_checked))
                .set("digest_mismatches", J::u(det_mismatch)),
        )
        .set(
            "components",
            J::obj()
                .set("real", J::Arr(info.real_components.iter().map(|s| J::str(s)).collect()))
                .set("stub", J::Arr(info.stub_components.iter().map(|s| J::str(s)).collect())),
        )
        .set("extra_arm", extra_evidence)
        .set("notes", J::Arr(total.notes.iter().map(|s| J::str(s)).collect()))
        .set("unreproducible_worker_deaths", J::u(unreproducible_deaths))
        .set("known_findings_matched", J::Arr(known_matched.iter().map(|s| J::str(s)).collect()))
        .set("harness_errors", J::Arr(harness_errors.iter().map(|s| J::str(s)).collect()));
    let evidence = J::obj()
        .set("property_id", J::str(info.property))
        .set("tier", J::str(opts.tier.name()))
        .set("seed", J::u(opts.master_seed))
        .set("level", J::str(info.level))
        .set("coverage", coverage)
        .set("assumptions", J::Arr(info.assumptions.iter().map(|s| J::str(s)).collect()))
        .set("wall_s", J::Float(wall))
        .set("violations", J::u(reported.len() as u64));
    let evdir = opts.root.join("evidence");
    let _ = std::fs::create_dir_all(&evdir);
    let evpath = evdir.join(format!("{}.json", info.property));
    if let Err(e) = std::fs::write(&evpath, evidence.to_pretty()) {
        harness_errors.push(format!("cannot write evidence: {}", e));
    }

    for n in total.notes.iter() {
        println!("note: {}", n);
    }
    println!(
        "{}: {} runs in {} jobs, {} distinct non-trivial, {} steps, {:.1}s wall, {} violation(s), {} known finding(s), determinism {}/{} ok",
        info.property,
        total.evaluations,
        results.len(),
        total.distinct,
        total.steps,
        wall,
        reported.len(),
        known_matched.len(),
        det_checked - det_mismatch,
        det_checked
    );
    let _ = unconfirmed;
    if !reported.is_empty() {
        return 1;
    }
    if !harness_errors.is_empty() {
        for e in harness_errors.iter() {
            println!("HARNESS-ERROR: {}", e);
        }
        return 2;
    }
    0
}

/// worker process main loop
pub fn worker_main(engine: &dyn Engine, tier: Tier, master_seed: u64, trace: bool) -> i32 {
    // silence panic messages: panics inside the library are expected events of a simulation
    crate::util::install_quiet_panic_hook();
    let stdin = std::io::stdin();
    let mut line = String::new();
    loop {
        line.clear();
        match stdin.lock().read_line(&mut line) {
            Ok(0) => return 0,
            Ok(_) => {}
            Err(_) => return 0,
        }
        let t = line.trim();
        let Some(rest) = t.strip_prefix("JOB ") else { continue };
        let Ok(job) = rest.parse::<u64>() else { continue };
        let ctx = JobCtx {
            property: engine.info().property.to_string(),
            tier,
            master_seed,
            job,
            trace,
        };
        let r = std::panic::catch_unwind(std::panic::AssertUnwindSafe(|| engine.run_job(&ctx)));
        match r {
            Ok(res) => {
                eprintln!("@@ RESULT {}", res.to_json().to_string());
            }
            Err(p) => {
                let msg = if let Some(s) = p.downcast_ref::<String>() {
                    s.clone()
                } else if let Some(s) = p.downcast_ref::<&str>() {
                    s.to_string()
                } else {
                    "?".to_string()
                };
                eprintln!("harness panic in job {}: {} [{}]", job, msg, crate::util::take_last_panic());
                return 3;
            }
        }
    }
}
