//! simcheck — deterministic simulation with fault injection for preflate-rs.
//!
//!   simcheck check  <ID> --tier quick|thorough --root DIR [--workers N]
//!   simcheck replay <FILE> --root DIR [--quiet]
//!   simcheck worker <ID> <tier> <seed> trace|notrace --root DIR      (internal)
//!   simcheck replay-exec <FILE> --root DIR                           (internal)

mod engine;
mod engine_blob;
mod engine_buggify;
mod engine_cabi;
mod engine_io;
mod engine_sched;
mod engine_upgrade;
mod json;
mod lz77;
mod prng;
mod simio;
mod supervisor;
mod util;
mod workload;

use engine::{Engine, Tier};
use std::path::PathBuf;
use std::process::{Command, Stdio};
use std::time::{Duration, Instant};

/// address-space limit of every process that executes library code (16 workers x 3 GiB stays below the machine's memory)
const WORKER_RLIMIT_AS: u64 = 3 << 30;

fn engines() -> Vec<Box<dyn Engine>> {
    vec![Box::new(engine_io::IoEngine), Box::new(engine_blob::BlobEngine), Box::new(engine_cabi::CabiEngine), Box::new(engine_sched::SchedEngine), Box::new(engine_upgrade::UpgradeEngine), Box::new(engine_buggify::BuggifyEngine)]
}

fn engine_for(id: &str) -> Option<Box<dyn Engine>> {
    engines().into_iter().find(|e| e.info().property == id)
}

fn arg_after(args: &[String], flag: &str) -> Option<String> {
    args.iter().position(|a| a == flag).and_then(|i| args.get(i + 1).cloned())
}

fn main() {
    let args: Vec<String> = std::env::args().collect();
    if args.len() < 2 {
        eprintln!("usage: simcheck check|replay|worker|replay-exec ...");
        std::process::exit(2);
    }
    let root = PathBuf::from(arg_after(&args, "--root").unwrap_or_else(|| "/verif".to_string()));
    let code = match args[1].as_str() {
        "check" => {
            let id = args.get(2).cloned().unwrap_or_default();
            let Some(engine) = engine_for(&id) else {
                eprintln!("unknown property/engine '{}'", id);
                std::process::exit(2);
            };
            let tier = arg_after(&args, "--tier")
                .or_else(|| std::env::var("VERIF_TIER").ok())
                .and_then(|t| Tier::parse(&t))
                .unwrap_or(Tier::Quick);
            let seed = util::env_u64("VERIF_SEED").unwrap_or(1);
            let workers = arg_after(&args, "--workers")
                .and_then(|w| w.parse().ok())
                .or_else(|| util::env_u64("VERIF_WORKERS").map(|w| w as usize))
                .unwrap_or_else(|| std::thread::available_parallelism().map(|n| n.get()).unwrap_or(8).min(16));
            let opts = supervisor::Options {
                root,
                tier,
                master_seed: seed,
                workers: workers.max(1),
                exe: std::env::current_exe().expect("current_exe"),
            };
            supervisor::run_check(engine.as_ref(), &opts)
        }
        "worker" => {
            let id = &args[2];
            let tier = Tier::parse(&args[3]).expect("tier");
            let seed: u64 = args[4].parse().expect("seed");
            let trace = args[5] == "trace";
            let engine = engine_for(id).expect("engine");
            util::set_rlimit_as(WORKER_RLIMIT_AS);
            supervisor::worker_main(engine.as_ref(), tier, seed, trace)
        }
        "aux" => {
            let engine = engine_for(&args[2]).expect("engine");
            util::set_rlimit_as(WORKER_RLIMIT_AS);
            engine.aux(&args[3..])
        }
        "gen-miri-stream" => {
            // prints a small raw DEFLATE stream without any 3 byte match (4 byte hash) as a Rust array
            let mut rng = prng::Rng::new(77);
            let plain = workload::gen_plaintext(&mut rng, 520);
            let p = lz77::Lz77Params {
                window_bits: 15,
                hash_bytes: 4,
                insert_limit: 0,
                insert_last: false,
                lazy: None,
                nice_length: 258,
                max_chain: 32,
                max_dist_3: 0,
                match_to_start: false,
                very_far: false,
                block_tokens: 100000,
                stored_every: 0,
                empty_run: 0,
                literals_only: false,
                irregular_258: false,
                pad_bits: 0,
            };
            let enc = lz77::encode(&plain[..520.min(plain.len())], &p);
            println!("pub const STREAM_3: [u8; {}] = [{}];", enc.len(), enc.iter().map(|b| b.to_string()).collect::<Vec<_>>().join(", "));
            0
        }
        "selftest-lz77" => {
            // the harness's own encoder must emit valid DEFLATE: inflate with zlib and compare
            let mut rng = prng::Rng::new(util::env_u64("VERIF_SEED").unwrap_or(1));
            let mut bad = 0;
            let n = 3000;
            let mut refs = 0u64;
            for i in 0..n {
                let target = rng.range(0, 9000) as usize;
                let plain = if target < 20 { vec![b'a'; target] } else { workload::gen_plaintext(&mut rng, target) };
                let p = lz77::Lz77Params::random(&mut rng);
                let enc = lz77::encode(&plain, &p);
                match workload::zlib_inflate_raw(&enc, plain.len() + 16) {
                    Some((out, used)) if out == plain && used == enc.len() => {
                        refs += (plain.len() as u64).saturating_sub(enc.len() as u64);
                    }
                    other => {
                        bad += 1;
                        if bad < 5 {
                            println!("case {}: {} -> mismatch ({:?})", i, p.describe(), other.map(|(o, u)| (o.len(), u)));
                        }
                    }
                }
            }
            println!("lz77 selftest: {} cases, {} bad, {} bytes saved in total", n, bad, refs);
            if bad == 0 { 0 } else { 2 }
        }
        "replay" => replay_parent(&args, &root),
        "replay-exec" => replay_exec(&args),
        _ => {
            eprintln!("unknown command {}", args[1]);
            2
        }
    };
    std::process::exit(code);
}

fn load_doc(path: &str) -> Result<json::J, String> {
    let s = std::fs::read_to_string(path).map_err(|e| format!("cannot read {}: {}", path, e))?;
    json::parse(&s)
}

/// executes the plan of a replay document in this very process (may die or hang: the parent watches)
fn replay_exec(args: &[String]) -> i32 {
    util::install_quiet_panic_hook();
    util::set_rlimit_as(WORKER_RLIMIT_AS);
    let doc = match load_doc(&args[2]) {
        Ok(d) => d,
        Err(e) => {
            eprintln!("@@ REPLAY-ERROR {}", e);
            return 2;
        }
    };
    let id = doc.get_str("property").unwrap_or("").to_string();
    let Some(engine) = engine_for(&id) else {
        eprintln!("@@ REPLAY-ERROR unknown property {}", id);
        return 2;
    };
    let out = engine.replay(&doc);
    let j = json::J::obj()
        .set("clause", match &out.clause {
            Some(c) => json::J::str(c),
            None => json::J::Null,
        })
        .set("digest", json::J::Str(format!("{:016x}", out.digest)))
        .set("detail", json::J::str(&out.detail));
    eprintln!("@@ REPLAY {}", j.to_string());
    if out.clause.is_some() {
        1
    } else {
        0
    }
}

fn replay_parent(args: &[String], root: &PathBuf) -> i32 {
    let quiet = args.iter().any(|a| a == "--quiet");
    let path = args.get(2).cloned().unwrap_or_default();
    let doc = match load_doc(&path) {
        Ok(d) => d,
        Err(e) => {
            println!("replay: {}", e);
            return 2;
        }
    };
    let id = doc.get_str("property").unwrap_or("").to_string();
    let Some(engine) = engine_for(&id) else {
        println!("replay: unknown property '{}'", id);
        return 2;
    };
    let expected = doc.get_str("clause").unwrap_or("").to_string();
    let stdout = std::fs::OpenOptions::new().write(true).open(engine.worker_stdout()).expect("worker stdout");
    let mut child = Command::new(std::env::current_exe().unwrap())
        .arg("replay-exec")
        .arg(&path)
        .arg("--root")
        .arg(root)
        .stdin(Stdio::null())
        .stdout(Stdio::from(stdout))
        .stderr(Stdio::piped())
        .spawn()
        .expect("spawn replay-exec");
    let stderr = child.stderr.take().unwrap();
    let reader = std::thread::spawn(move || {
        use std::io::Read;
        let mut s = String::new();
        let mut r = stderr;
        let _ = r.read_to_string(&mut s);
        s
    });
    let timeout = Duration::from_secs(2 * engine.job_timeout_s(Tier::Quick));
    let start = Instant::now();
    let status = loop {
        match child.try_wait() {
            Ok(Some(st)) => break Some(st),
            Ok(None) => {
                if start.elapsed() > timeout {
                    let _ = child.kill();
                    let _ = child.wait();
                    break None;
                }
                std::thread::sleep(Duration::from_millis(10));
            }
            Err(_) => break None,
        }
    };
    let err_out = reader.join().unwrap_or_default();
    let result_line = err_out.lines().find_map(|l| l.strip_prefix("@@ REPLAY ").map(|s| s.to_string()));
    let (clause, digest, detail) = match (&status, &result_line) {
        (None, _) => (Some("stall".to_string()), String::new(), "replay made no progress within the time limit".to_string()),
        (Some(_), Some(l)) => {
            let j = json::parse(l).unwrap_or(json::J::Null);
            (
                j.get_str("clause").map(|s| s.to_string()),
                j.get_str("digest").unwrap_or("").to_string(),
                j.get_str("detail").unwrap_or("").to_string(),
            )
        }
        (Some(st), None) => {
            if st.code() == Some(2) {
                println!("replay: {}", err_out.lines().last().unwrap_or("error"));
                return 2;
            }
            (
                Some("process_died".to_string()),
                String::new(),
                format!(
                    "replay process terminated abnormally ({:?}): {}",
                    st,
                    err_out.lines().filter(|l| !l.starts_with("@@")).last().unwrap_or("")
                ),
            )
        }
    };
    match clause {
        Some(c) => {
            let same = c == expected || expected.is_empty();
            println!(
                "REPRODUCED clause={}{} digest={}: {}",
                c,
                if same { "".to_string() } else { format!(" (recorded clause was {})", expected) },
                digest,
                detail
            );
            if let Some(d0) = doc.get_str("digest") {
                if !digest.is_empty() && d0 != digest {
                    println!("note: event-log digest differs from the recorded one ({} vs {}): the code changed since the recording", digest, d0);
                }
            }
            if !quiet {
                println!("VIOLATION property={} replay={}", id, path);
            }
            1
        }
        None => {
            println!("NOT REPRODUCED: {}", detail);
            0
        }
    }
}
