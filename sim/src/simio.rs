//! Simulated disk/network under `recreated_zlib_chunks`: fault-injecting `Read` and `Write`.
//! Every decision comes from the explicit `IoPlan`; the stubs never look at a clock and draw
//! randomness only from the plan's `tail_seed`.

use crate::json::J;
use crate::prng::{Digest, Rng};
use std::io::{self, ErrorKind, Read, Write};

#[derive(Clone, Copy, Debug, PartialEq, Eq, Hash, PartialOrd, Ord)]
pub enum Side {
    Src,
    Dst,
}

#[derive(Clone, Copy, Debug, PartialEq, Eq, Hash, PartialOrd, Ord)]
pub enum FaultKind {
    /// hard error of the given kind index (see HARD_KINDS), one-shot
    Hard(u8),
    /// `arg` consecutive ErrorKind::Interrupted results
    Interrupted,
    /// destination answers Ok(0) once (device full); source: premature end of data (sticky)
    Zero,
}

/// how the injected io::Error is constructed (`Fault::arg` of a hard fault):
/// 0 = kind + message payload, 1 = bare kind (no payload), 2 = raw OS error, 3 = an io::Error
/// that wraps one of the library's own PreflateError values
pub const FLAVOURS: [&str; 5] = ["message", "bare_kind", "raw_os_error", "wrapped_preflate_error", "long_non_ascii_message"];
pub const NFLAVOURS: u32 = 5;

pub fn make_error(kind_idx: u8, flavour: u32, side: &str) -> io::Error {
    let (kind, name) = HARD_KINDS[kind_idx as usize % HARD_KINDS.len()];
    match (flavour & 0xff) % NFLAVOURS {
        4 => {
            // a long message with multi-byte characters at every other byte position (a localised
            // OS error text, a non-ASCII path): any byte-offset truncation lands inside a character
            let mut m = format!("simulierter {}-Fehler {}: ", side, name);
            while m.len() < 300 {
                m.push_str("Gerät »ß« nicht bereit – ");
                if m.len() % 2 == 0 {
                    m.push('x');
                }
            }
            io::Error::new(kind, m)
        }
        0 => io::Error::new(kind, format!("simulated {} error {}", side, name)),
        1 => io::Error::from(kind),
        2 => io::Error::from_raw_os_error(match kind {
            ErrorKind::BrokenPipe => 32,       // EPIPE
            ErrorKind::TimedOut => 110,        // ETIMEDOUT
            ErrorKind::WouldBlock => 11,       // EAGAIN
            ErrorKind::ConnectionReset => 104, // ECONNRESET
            ErrorKind::PermissionDenied => 13, // EACCES
            ErrorKind::InvalidData => 28,      // ENOSPC
            _ => 5,                            // EIO
        }),
        _ => {
            // a genuine PreflateError produced by the library, wrapped the way the library wraps it
            // (0xff = final block of reserved type 3: rejected by the block reader)
            let r = std::panic::catch_unwind(|| preflate_rs::decompress_deflate_stream(&[0xff, 0xff, 0xff, 0xff], false, 0));
            match r {
                Ok(Err(e)) => io::Error::from(e),
                _ => io::Error::new(kind, "simulated error"),
            }
        }
    }
}

pub const HARD_KINDS: [(ErrorKind, &str); 8] = [
    (ErrorKind::Other, "Other"),
    (ErrorKind::UnexpectedEof, "UnexpectedEof"),
    (ErrorKind::BrokenPipe, "BrokenPipe"),
    (ErrorKind::TimedOut, "TimedOut"),
    (ErrorKind::WouldBlock, "WouldBlock"),
    (ErrorKind::ConnectionReset, "ConnectionReset"),
    (ErrorKind::InvalidData, "InvalidData"),
    (ErrorKind::PermissionDenied, "PermissionDenied"),
];

#[derive(Clone, Copy, Debug, PartialEq, Eq, Hash)]
pub struct Fault {
    pub side: Side,
    pub kind: FaultKind,
    /// byte offset on that side at which the fault fires: the stub first delivers/accepts
    /// bytes up to exactly `at`, and the next call (made at offset `at`) gets the fault.
    pub at: u64,
    /// burst length for Interrupted
    pub arg: u32,
}

#[derive(Clone, Copy, Debug, PartialEq, Eq, Hash)]
pub enum Frag {
    /// as much as requested
    Whole,
    /// one byte per call
    One,
    /// 1..=k bytes per call, drawn from the plan's tail_seed
    Seeded(u32),
    /// never cross a structural boundary shifted by delta (-1, 0, +1)
    Boundary(i8),
}

#[derive(Clone, Debug, PartialEq)]
pub struct IoPlan {
    pub src_frag: Frag,
    pub dst_frag: Frag,
    pub faults: Vec<Fault>,
    pub tail_seed: u64,
}

impl IoPlan {
    pub fn clean() -> IoPlan {
        IoPlan {
            src_frag: Frag::Whole,
            dst_frag: Frag::Whole,
            faults: Vec::new(),
            tail_seed: 0,
        }
    }

    pub fn to_json(&self) -> J {
        J::obj()
            .set("src_frag", frag_json(&self.src_frag))
            .set("dst_frag", frag_json(&self.dst_frag))
            .set("tail_seed", J::u(self.tail_seed))
            .set(
                "faults",
                J::Arr(
                    self.faults
                        .iter()
                        .map(|f| {
                            let (k, kn) = match f.kind {
                                FaultKind::Hard(i) => ("hard", HARD_KINDS[i as usize % HARD_KINDS.len()].1),
                                FaultKind::Interrupted => ("interrupted", ""),
                                FaultKind::Zero => ("zero", ""),
                            };
                            J::obj()
                                .set("side", J::str(if f.side == Side::Src { "src" } else { "dst" }))
                                .set("kind", J::str(k))
                                .set("error", J::str(kn))
                                .set("flavour", J::str(if matches!(f.kind, FaultKind::Hard(_)) { FLAVOURS[((f.arg & 0xff) % NFLAVOURS) as usize] } else { "" }))
                                .set("sticky", J::Bool(!matches!(f.kind, FaultKind::Interrupted) && f.arg & STICKY != 0))
                                .set("at", J::u(f.at))
                                .set("arg", J::u(f.arg as u64))
                        })
                        .collect(),
                ),
            )
    }

    pub fn from_json(j: &J) -> Result<IoPlan, String> {
        let mut faults = Vec::new();
        for f in j.get_arr("faults").ok_or("faults")? {
            let side = match f.get_str("side").ok_or("side")? {
                "src" => Side::Src,
                "dst" => Side::Dst,
                _ => return Err("side".into()),
            };
            let kind = match f.get_str("kind").ok_or("kind")? {
                "hard" => {
                    let name = f.get_str("error").ok_or("error")?;
                    let i = HARD_KINDS.iter().position(|k| k.1 == name).ok_or("error kind")?;
                    FaultKind::Hard(i as u8)
                }
                "interrupted" => FaultKind::Interrupted,
                "zero" => FaultKind::Zero,
                _ => return Err("kind".into()),
            };
            faults.push(Fault {
                side,
                kind,
                at: f.get_u64("at").ok_or("at")?,
                arg: f.get_u64("arg").ok_or("arg")? as u32,
            });
        }
        Ok(IoPlan {
            src_frag: frag_from(j.get("src_frag").ok_or("src_frag")?)?,
            dst_frag: frag_from(j.get("dst_frag").ok_or("dst_frag")?)?,
            faults,
            tail_seed: j.get_u64("tail_seed").ok_or("tail_seed")?,
        })
    }
}

fn frag_json(f: &Frag) -> J {
    match f {
        Frag::Whole => J::str("whole"),
        Frag::One => J::str("one"),
        Frag::Seeded(k) => J::Str(format!("seeded:{}", k)),
        Frag::Boundary(d) => J::Str(format!("boundary:{}", d)),
    }
}

fn frag_from(j: &J) -> Result<Frag, String> {
    let s = j.as_str().ok_or("frag")?;
    if s == "whole" {
        Ok(Frag::Whole)
    } else if s == "one" {
        Ok(Frag::One)
    } else if let Some(k) = s.strip_prefix("seeded:") {
        Ok(Frag::Seeded(k.parse().map_err(|_| "seeded")?))
    } else if let Some(d) = s.strip_prefix("boundary:") {
        Ok(Frag::Boundary(d.parse().map_err(|_| "boundary")?))
    } else {
        Err("frag".into())
    }
}

/// what the stubs recorded during one run
#[derive(Clone, Debug, Default)]
pub struct IoTrace {
    pub digest: Digest,
    pub src_calls: u64,
    pub dst_calls: u64,
    /// faults that actually fired: (index into plan.faults)
    pub fired: Vec<usize>,
    pub hard_returned: u32,
    pub interrupted_returned: u32,
    pub zero_write_returned: u32,
    pub src_eof_injected: bool,
    pub short_reads: u64,
    pub partial_writes: u64,
    pub budget_exceeded: bool,
    pub calls_after_last_transient: u64,
    /// the library issued another call on a side after that side returned a hard error
    pub call_after_hard_error: bool,
}

/// `Fault::arg` bit: the condition persists (device stays broken / stays full) instead of one-shot
pub const STICKY: u32 = 0x100;

struct SideState {
    faults: Vec<(usize, Fault)>, // sorted by at, pending
    interrupted_left: u32,
    hard_fired: bool,
    /// once set, every later call on this side fails with this (kind, flavour)
    sticky_hard: Option<(u8, u32)>,
    /// once set, every later write is answered with Ok(0)
    sticky_zero: bool,
    rng: Rng,
    frag: Frag,
    boundaries: std::sync::Arc<Vec<u64>>,
}

impl SideState {
    fn new(side: Side, plan: &IoPlan, boundaries: std::sync::Arc<Vec<u64>>) -> SideState {
        let mut faults: Vec<(usize, Fault)> = plan
            .faults
            .iter()
            .cloned()
            .enumerate()
            .filter(|(_, f)| f.side == side)
            .collect();
        faults.sort_by_key(|(i, f)| (f.at, *i));
        SideState {
            faults,
            interrupted_left: 0,
            hard_fired: false,
            sticky_hard: None,
            sticky_zero: false,
            rng: Rng::new(plan.tail_seed ^ if side == Side::Src { 0x5151 } else { 0xd5d5 }),
            frag: if side == Side::Src { plan.src_frag } else { plan.dst_frag },
            boundaries,
        }
    }

    /// how many bytes (>= 1) to move at offset `pos` when `want` (>= 1) are requested
    fn amount(&mut self, pos: u64, want: usize) -> usize {
        let mut n = match self.frag {
            Frag::Whole => want,
            Frag::One => 1,
            Frag::Seeded(k) => (self.rng.range(1, k.max(1) as u64) as usize).min(want),
            Frag::Boundary(d) => {
                // next boundary + d strictly greater than pos
                let b = &self.boundaries;
                let mut n = want;
                let idx = b.partition_point(|&x| (x as i64 + d as i64) <= pos as i64);
                if idx < b.len() {
                    let stop = (b[idx] as i64 + d as i64) as u64;
                    n = n.min((stop - pos) as usize);
                }
                n
            }
        };
        // never run past the next pending fault position
        if let Some((_, f)) = self.faults.first() {
            if f.at > pos {
                n = n.min((f.at - pos) as usize);
            }
        }
        n.max(1)
    }
}

pub struct Shared {
    pub trace: IoTrace,
    pub call_budget: u64,
    pub total_calls: u64,
    pub last_transient_call: u64,
}

pub type SharedRef = std::rc::Rc<std::cell::RefCell<Shared>>;

pub fn new_shared(call_budget: u64) -> SharedRef {
    std::rc::Rc::new(std::cell::RefCell::new(Shared {
        trace: IoTrace::default(),
        call_budget,
        total_calls: 0,
        last_transient_call: 0,
    }))
}

pub struct SimReader<'a> {
    data: &'a [u8],
    pos: usize,
    st: SideState,
    eof_forced: bool,
    shared: SharedRef,
}

impl<'a> SimReader<'a> {
    pub fn new(data: &'a [u8], plan: &IoPlan, boundaries: std::sync::Arc<Vec<u64>>, shared: SharedRef) -> Self {
        SimReader {
            data,
            pos: 0,
            st: SideState::new(Side::Src, plan, boundaries),
            eof_forced: false,
            shared,
        }
    }
    pub fn position(&self) -> usize {
        self.pos
    }
}

fn budget_error() -> io::Error {
    io::Error::new(ErrorKind::Other, "simulation: call budget exceeded")
}

impl<'a> Read for SimReader<'a> {
    fn read(&mut self, buf: &mut [u8]) -> io::Result<usize> {
        let mut sh = self.shared.borrow_mut();
        sh.total_calls += 1;
        sh.trace.src_calls += 1;
        if self.st.hard_fired {
            sh.trace.call_after_hard_error = true;
        }
        sh.trace.digest.u64(0x5200_0000_0000_0000 | buf.len() as u64);
        if sh.total_calls - sh.last_transient_call > sh.call_budget {
            sh.trace.budget_exceeded = true;
            return Err(budget_error());
        }
        if buf.is_empty() {
            return Ok(0);
        }
        if let Some((k, fl)) = self.st.sticky_hard {
            sh.trace.hard_returned += 1;
            sh.trace.digest.u64(0xE5_00 | k as u64);
            return Err(make_error(k, fl, "source"));
        }
        if self.st.interrupted_left > 0 {
            self.st.interrupted_left -= 1;
            sh.trace.interrupted_returned += 1;
            sh.last_transient_call = sh.total_calls;
            sh.trace.digest.u64(0xE1);
            return Err(io::Error::new(ErrorKind::Interrupted, "simulated EINTR"));
        }
        // fault due at this offset?
        while let Some((idx, f)) = self.st.faults.first().cloned() {
            if f.at as usize > self.pos {
                break;
            }
            self.st.faults.remove(0);
            if (f.at as usize) < self.pos {
                continue; // position was skipped (cannot happen with amount()), drop silently
            }
            sh.trace.fired.push(idx);
            match f.kind {
                FaultKind::Hard(k) => {
                    self.st.hard_fired = true;
                    sh.trace.hard_returned += 1;
                    sh.trace.digest.u64(0xE2_00 | k as u64);
                    if f.arg & STICKY != 0 {
                        self.st.sticky_hard = Some((k, f.arg));
                    }
                    return Err(make_error(k, f.arg, "source"));
                }
                FaultKind::Interrupted => {
                    let n = f.arg.clamp(1, 3);
                    self.st.interrupted_left = n - 1;
                    sh.trace.interrupted_returned += 1;
                    sh.last_transient_call = sh.total_calls;
                    sh.trace.digest.u64(0xE1);
                    return Err(io::Error::new(ErrorKind::Interrupted, "simulated EINTR"));
                }
                FaultKind::Zero => {
                    self.eof_forced = true;
                    sh.trace.src_eof_injected = true;
                }
            }
        }
        if self.eof_forced || self.pos >= self.data.len() {
            sh.trace.digest.u64(0xE0F);
            return Ok(0);
        }
        let remaining = self.data.len() - self.pos;
        let want = buf.len().min(remaining);
        let n = self.st.amount(self.pos as u64, want);
        if n < buf.len().min(remaining) {
            sh.trace.short_reads += 1;
        }
        buf[..n].copy_from_slice(&self.data[self.pos..self.pos + n]);
        self.pos += n;
        sh.trace.digest.u64(n as u64);
        Ok(n)
    }
}

pub struct SimWriter {
    pub accepted: Vec<u8>,
    st: SideState,
    shared: SharedRef,
}

impl SimWriter {
    pub fn new(plan: &IoPlan, boundaries: std::sync::Arc<Vec<u64>>, shared: SharedRef) -> Self {
        SimWriter {
            accepted: Vec::new(),
            st: SideState::new(Side::Dst, plan, boundaries),
            shared,
        }
    }
}

impl Write for SimWriter {
    fn write(&mut self, buf: &[u8]) -> io::Result<usize> {
        let mut sh = self.shared.borrow_mut();
        sh.total_calls += 1;
        sh.trace.dst_calls += 1;
        if self.st.hard_fired {
            sh.trace.call_after_hard_error = true;
        }
        sh.trace.digest.u64(0x5700_0000_0000_0000 | buf.len() as u64);
        if sh.total_calls - sh.last_transient_call > sh.call_budget {
            sh.trace.budget_exceeded = true;
            return Err(budget_error());
        }
        if buf.is_empty() {
            return Ok(0);
        }
        if let Some((k, fl)) = self.st.sticky_hard {
            sh.trace.hard_returned += 1;
            sh.trace.digest.u64(0xE6_00 | k as u64);
            return Err(make_error(k, fl, "destination"));
        }
        if self.st.sticky_zero {
            // the device stays full: Ok(0) for ever (a caller that keeps retrying runs into the step budget)
            sh.trace.zero_write_returned += 1;
            sh.trace.digest.u64(0xE7);
            return Ok(0);
        }
        if self.st.interrupted_left > 0 {
            self.st.interrupted_left -= 1;
            sh.trace.interrupted_returned += 1;
            sh.last_transient_call = sh.total_calls;
            sh.trace.digest.u64(0xE1);
            return Err(io::Error::new(ErrorKind::Interrupted, "simulated EINTR"));
        }
        let pos = self.accepted.len();
        while let Some((idx, f)) = self.st.faults.first().cloned() {
            if f.at as usize > pos {
                break;
            }
            self.st.faults.remove(0);
            if (f.at as usize) < pos {
                continue;
            }
            sh.trace.fired.push(idx);
            match f.kind {
                FaultKind::Hard(k) => {
                    self.st.hard_fired = true;
                    sh.trace.hard_returned += 1;
                    sh.trace.digest.u64(0xE3_00 | k as u64);
                    if f.arg & STICKY != 0 {
                        self.st.sticky_hard = Some((k, f.arg));
                    }
                    return Err(make_error(k, f.arg, "destination"));
                }
                FaultKind::Interrupted => {
                    let n = f.arg.clamp(1, 3);
                    self.st.interrupted_left = n - 1;
                    sh.trace.interrupted_returned += 1;
                    sh.last_transient_call = sh.total_calls;
                    sh.trace.digest.u64(0xE1);
                    return Err(io::Error::new(ErrorKind::Interrupted, "simulated EINTR"));
                }
                FaultKind::Zero => {
                    sh.trace.zero_write_returned += 1;
                    sh.last_transient_call = sh.total_calls;
                    sh.trace.digest.u64(0xE4);
                    if f.arg & STICKY != 0 {
                        self.st.sticky_zero = true;
                    }
                    return Ok(0);
                }
            }
        }
        let n = self.st.amount(pos as u64, buf.len());
        if n < buf.len() {
            sh.trace.partial_writes += 1;
        }
        self.accepted.extend_from_slice(&buf[..n]);
        sh.trace.digest.u64(n as u64);
        Ok(n)
    }

    fn flush(&mut self) -> io::Result<()> {
        let mut sh = self.shared.borrow_mut();
        sh.trace.digest.u64(0xF1);
        Ok(())
    }
}

/// Structural layout of a container produced by `expand_zlib_chunks` (harness-owned parser,
/// used only to place faults and to label where they landed; never as an oracle).
#[derive(Clone, Copy, Debug, PartialEq, Eq, Hash, PartialOrd, Ord)]
pub enum Phase {
    Version,
    Tag,
    LiteralLen,
    LiteralData,
    IdatSizes,
    IdatHeader,
    IdatAdler,
    PlainLen,
    Plain,
    CorrLen,
    Corr,
    EofProbe,
    Unknown,
}

#[derive(Clone, Debug, Default)]
pub struct Layout {
    /// (start offset, phase, chunk kind 0/1/2) for each field, in order; sorted by offset
    pub fields: Vec<(u64, Phase, u8)>,
    pub len: u64,
    pub chunk_kinds: [u32; 3],
    pub max_literal: u64,
}

impl Layout {
    pub fn boundaries(&self) -> Vec<u64> {
        let mut b: Vec<u64> = self.fields.iter().map(|f| f.0).collect();
        b.push(self.len);
        b.sort();
        b.dedup();
        b
    }
    pub fn phase_at(&self, off: u64) -> (Phase, u8) {
        if off >= self.len {
            return (Phase::EofProbe, 3);
        }
        let idx = self.fields.partition_point(|f| f.0 <= off);
        if idx == 0 {
            (Phase::Unknown, 3)
        } else {
            (self.fields[idx - 1].1, self.fields[idx - 1].2)
        }
    }
}

fn varint_at(e: &[u8], p: &mut usize) -> Option<u32> {
    let mut result: u32 = 0;
    let mut shift = 0;
    loop {
        let b = *e.get(*p)?;
        *p += 1;
        if shift < 32 {
            result |= ((b & 0x7f) as u32) << shift;
        }
        shift += 7;
        if b & 0x80 == 0 {
            return Some(result);
        }
    }
}

pub fn parse_layout(e: &[u8]) -> Layout {
    let mut l = Layout {
        len: e.len() as u64,
        ..Default::default()
    };
    if e.is_empty() {
        return l;
    }
    l.fields.push((0, Phase::Version, 3));
    let mut p = 1usize;
    while p < e.len() {
        let tag = e[p];
        let kind = tag.min(3);
        l.fields.push((p as u64, Phase::Tag, kind));
        p += 1;
        match tag {
            0 => {
                l.chunk_kinds[0] += 1;
                l.fields.push((p as u64, Phase::LiteralLen, 0));
                let Some(n) = varint_at(e, &mut p) else { break };
                l.max_literal = l.max_literal.max(n as u64);
                if n > 0 {
                    l.fields.push((p as u64, Phase::LiteralData, 0));
                }
                p = p.saturating_add(n as usize);
            }
            1 | 2 => {
                l.chunk_kinds[tag as usize] += 1;
                if tag == 2 {
                    l.fields.push((p as u64, Phase::IdatSizes, 2));
                    loop {
                        let Some(n) = varint_at(e, &mut p) else { return l };
                        if n == 0 {
                            break;
                        }
                    }
                    l.fields.push((p as u64, Phase::IdatHeader, 2));
                    p += 2;
                    l.fields.push((p as u64, Phase::IdatAdler, 2));
                    p += 4;
                }
                l.fields.push((p as u64, Phase::PlainLen, tag));
                let Some(n) = varint_at(e, &mut p) else { break };
                if n > 0 {
                    l.fields.push((p as u64, Phase::Plain, tag));
                }
                p = p.saturating_add(n as usize);
                l.fields.push((p as u64, Phase::CorrLen, tag));
                let Some(n) = varint_at(e, &mut p) else { break };
                if n > 0 {
                    l.fields.push((p as u64, Phase::Corr, tag));
                }
                p = p.saturating_add(n as usize);
            }
            _ => break,
        }
    }
    l.fields.retain(|f| f.0 < e.len() as u64);
    l
}

/// Writer that records the offsets at which write calls started (fault-free run):
/// these are the structural boundaries of the destination side.
#[derive(Default)]
pub struct RecordingWriter {
    pub data: Vec<u8>,
    pub call_offsets: Vec<u64>,
}

impl Write for RecordingWriter {
    fn write(&mut self, buf: &[u8]) -> io::Result<usize> {
        self.call_offsets.push(self.data.len() as u64);
        self.data.extend_from_slice(buf);
        Ok(buf.len())
    }
    fn flush(&mut self) -> io::Result<()> {
        Ok(())
    }
}
