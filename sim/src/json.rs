//! Minimal JSON value, writer and parser (no external dependency; field order is preserved
//! so that evidence and replay files are byte-stable).

#[derive(Clone, Debug, PartialEq)]
pub enum J {
    Null,
    Bool(bool),
    Int(i128),
    Float(f64),
    Str(String),
    Arr(Vec<J>),
    Obj(Vec<(String, J)>),
}

impl J {
    pub fn obj() -> J {
        J::Obj(Vec::new())
    }
    pub fn set(mut self, k: &str, v: J) -> J {
        self.put(k, v);
        self
    }
    pub fn put(&mut self, k: &str, v: J) {
        if let J::Obj(o) = self {
            if let Some(e) = o.iter_mut().find(|e| e.0 == k) {
                e.1 = v;
            } else {
                o.push((k.to_string(), v));
            }
        } else {
            panic!("put on non-object");
        }
    }
    pub fn get(&self, k: &str) -> Option<&J> {
        match self {
            J::Obj(o) => o.iter().find(|e| e.0 == k).map(|e| &e.1),
            _ => None,
        }
    }
    pub fn str(s: &str) -> J {
        J::Str(s.to_string())
    }
    pub fn u(v: u64) -> J {
        J::Int(v as i128)
    }
    pub fn i(v: i64) -> J {
        J::Int(v as i128)
    }
    pub fn as_u64(&self) -> Option<u64> {
        match self {
            J::Int(i) if *i >= 0 && *i <= u64::MAX as i128 => Some(*i as u64),
            _ => None,
        }
    }
    pub fn as_i64(&self) -> Option<i64> {
        match self {
            J::Int(i) => Some(*i as i64),
            _ => None,
        }
    }
    pub fn as_str(&self) -> Option<&str> {
        match self {
            J::Str(s) => Some(s),
            _ => None,
        }
    }
    pub fn as_bool(&self) -> Option<bool> {
        match self {
            J::Bool(b) => Some(*b),
            _ => None,
        }
    }
    pub fn as_arr(&self) -> Option<&[J]> {
        match self {
            J::Arr(a) => Some(a),
            _ => None,
        }
    }
    pub fn get_u64(&self, k: &str) -> Option<u64> {
        self.get(k).and_then(|v| v.as_u64())
    }
    pub fn get_str(&self, k: &str) -> Option<&str> {
        self.get(k).and_then(|v| v.as_str())
    }
    pub fn get_arr(&self, k: &str) -> Option<&[J]> {
        self.get(k).and_then(|v| v.as_arr())
    }

    pub fn to_string(&self) -> String {
        let mut s = String::new();
        self.write(&mut s, None, 0);
        s
    }
    pub fn to_pretty(&self) -> String {
        let mut s = String::new();
        self.write(&mut s, Some(1), 0);
        s.push('\n');
        s
    }

    fn write(&self, out: &mut String, indent: Option<usize>, depth: usize) {
        let nl = |out: &mut String, d: usize| {
            if let Some(w) = indent {
                out.push('\n');
                for _ in 0..(d * w) {
                    out.push(' ');
                }
            }
        };
        match self {
            J::Null => out.push_str("null"),
            J::Bool(b) => out.push_str(if *b { "true" } else { "false" }),
            J::Int(i) => out.push_str(&i.to_string()),
            J::Float(f) => {
                if f.is_finite() {
                    let s = format!("{:.3}", f);
                    out.push_str(&s);
                } else {
                    out.push_str("0.0");
                }
            }
            J::Str(s) => write_str(out, s),
            J::Arr(a) => {
                out.push('[');
                let scalar = a.iter().all(|x| !matches!(x, J::Arr(_) | J::Obj(_)));
                for (i, v) in a.iter().enumerate() {
                    if i > 0 {
                        out.push(',');
                        if scalar && indent.is_some() {
                            out.push(' ');
                        }
                    }
                    if !scalar {
                        nl(out, depth + 1);
                    }
                    v.write(out, indent, depth + 1);
                }
                if !a.is_empty() && !scalar {
                    nl(out, depth);
                }
                out.push(']');
            }
            J::Obj(o) => {
                out.push('{');
                for (i, (k, v)) in o.iter().enumerate() {
                    if i > 0 {
                        out.push(',');
                    }
                    nl(out, depth + 1);
                    write_str(out, k);
                    out.push(':');
                    if indent.is_some() {
                        out.push(' ');
                    }
                    v.write(out, indent, depth + 1);
                }
                if !o.is_empty() {
                    nl(out, depth);
                }
                out.push('}');
            }
        }
    }
}

fn write_str(out: &mut String, s: &str) {
    out.push('"');
    for c in s.chars() {
        match c {
            '"' => out.push_str("\\\""),
            '\\' => out.push_str("\\\\"),
            '\n' => out.push_str("\\n"),
            '\r' => out.push_str("\\r"),
            '\t' => out.push_str("\\t"),
            c if (c as u32) < 0x20 => out.push_str(&format!("\\u{:04x}", c as u32)),
            c => out.push(c),
        }
    }
    out.push('"');
}

pub fn parse(s: &str) -> Result<J, String> {
    let b = s.as_bytes();
    let mut p = 0usize;
    let v = parse_value(b, &mut p)?;
    skip_ws(b, &mut p);
    if p != b.len() {
        return Err(format!("trailing data at {}", p));
    }
    Ok(v)
}

fn skip_ws(b: &[u8], p: &mut usize) {
    while *p < b.len() && matches!(b[*p], b' ' | b'\n' | b'\r' | b'\t') {
        *p += 1;
    }
}

fn parse_value(b: &[u8], p: &mut usize) -> Result<J, String> {
    skip_ws(b, p);
    if *p >= b.len() {
        return Err("unexpected end".into());
    }
    match b[*p] {
        b'{' => {
            *p += 1;
            let mut o = Vec::new();
            skip_ws(b, p);
            if *p < b.len() && b[*p] == b'}' {
                *p += 1;
                return Ok(J::Obj(o));
            }
            loop {
                skip_ws(b, p);
                let k = match parse_value(b, p)? {
                    J::Str(s) => s,
                    _ => return Err(format!("object key not a string at {}", p)),
                };
                skip_ws(b, p);
                if *p >= b.len() || b[*p] != b':' {
                    return Err(format!("expected ':' at {}", p));
                }
                *p += 1;
                let v = parse_value(b, p)?;
                o.push((k, v));
                skip_ws(b, p);
                if *p >= b.len() {
                    return Err("unexpected end in object".into());
                }
                match b[*p] {
                    b',' => *p += 1,
                    b'}' => {
                        *p += 1;
                        return Ok(J::Obj(o));
                    }
                    _ => return Err(format!("expected ',' or '}}' at {}", p)),
                }
            }
        }
        b'[' => {
            *p += 1;
            let mut a = Vec::new();
            skip_ws(b, p);
            if *p < b.len() && b[*p] == b']' {
                *p += 1;
                return Ok(J::Arr(a));
            }
            loop {
                a.push(parse_value(b, p)?);
                skip_ws(b, p);
                if *p >= b.len() {
                    return Err("unexpected end in array".into());
                }
                match b[*p] {
                    b',' => *p += 1,
                    b']' => {
                        *p += 1;
                        return Ok(J::Arr(a));
                    }
                    _ => return Err(format!("expected ',' or ']' at {}", p)),
                }
            }
        }
        b'"' => {
            *p += 1;
            let mut s = String::new();
            loop {
                if *p >= b.len() {
                    return Err("unterminated string".into());
                }
                let c = b[*p];
                *p += 1;
                match c {
                    b'"' => return Ok(J::Str(s)),
                    b'\\' => {
                        if *p >= b.len() {
                            return Err("bad escape".into());
                        }
                        let e = b[*p];
                        *p += 1;
                        match e {
                            b'"' => s.push('"'),
                            b'\\' => s.push('\\'),
                            b'/' => s.push('/'),
                            b'n' => s.push('\n'),
                            b'r' => s.push('\r'),
                            b't' => s.push('\t'),
                            b'b' => s.push('\u{8}'),
                            b'f' => s.push('\u{c}'),
                            b'u' => {
                                if *p + 4 > b.len() {
                                    return Err("bad \\u".into());
                                }
                                let h = std::str::from_utf8(&b[*p..*p + 4]).map_err(|e| e.to_string())?;
                                let cp = u32::from_str_radix(h, 16).map_err(|e| e.to_string())?;
                                *p += 4;
                                s.push(char::from_u32(cp).unwrap_or('?'));
                            }
                            _ => return Err("bad escape".into()),
                        }
                    }
                    _ => {
                        // copy the raw utf-8 sequence
                        let start = *p - 1;
                        let mut end = *p;
                        while end < b.len() && (b[end] & 0xC0) == 0x80 {
                            end += 1;
                        }
                        s.push_str(std::str::from_utf8(&b[start..end]).map_err(|e| e.to_string())?);
                        *p = end;
                    }
                }
            }
        }
        b't' if b[*p..].starts_with(b"true") => {
            *p += 4;
            Ok(J::Bool(true))
        }
        b'f' if b[*p..].starts_with(b"false") => {
            *p += 5;
            Ok(J::Bool(false))
        }
        b'n' if b[*p..].starts_with(b"null") => {
            *p += 4;
            Ok(J::Null)
        }
        _ => {
            let start = *p;
            let mut is_float = false;
            while *p < b.len() && matches!(b[*p], b'0'..=b'9' | b'-' | b'+' | b'.' | b'e' | b'E') {
                if matches!(b[*p], b'.' | b'e' | b'E') {
                    is_float = true;
                }
                *p += 1;
            }
            let t = std::str::from_utf8(&b[start..*p]).map_err(|e| e.to_string())?;
            if t.is_empty() {
                return Err(format!("unexpected byte {} at {}", b[start], start));
            }
            if is_float {
                t.parse::<f64>().map(J::Float).map_err(|e| e.to_string())
            } else {
                t.parse::<i128>().map(J::Int).map_err(|e| e.to_string())
            }
        }
    }
}

pub fn hex(b: &[u8]) -> String {
    const H: &[u8; 16] = b"0123456789abcdef";
    let mut s = String::with_capacity(b.len() * 2);
    for &x in b {
        s.push(H[(x >> 4) as usize] as char);
        s.push(H[(x & 15) as usize] as char);
    }
    s
}

pub fn unhex(s: &str) -> Result<Vec<u8>, String> {
    let b = s.as_bytes();
    if b.len() % 2 != 0 {
        return Err("odd hex length".into());
    }
    let v = |c: u8| -> Result<u8, String> {
        match c {
            b'0'..=b'9' => Ok(c - b'0'),
            b'a'..=b'f' => Ok(c - b'a' + 10),
            b'A'..=b'F' => Ok(c - b'A' + 10),
            _ => Err("bad hex".into()),
        }
    };
    let mut out = Vec::with_capacity(b.len() / 2);
    for i in (0..b.len()).step_by(2) {
        out.push(v(b[i])? << 4 | v(b[i + 1])?);
    }
    Ok(out)
}
