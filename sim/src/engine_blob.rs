//! C11 — zstd wrappers under storage faults on the stored blob and a memory budget
//! supplied by the environment (engine `blob`).
//!
//! B = compress_zstd(F) is the durable object; |E| = |expand_zlib_chunks(F)| is the exact
//! boundary of the budget. The simulated store tears, smashes or replaces B before
//! decompress_zstd(B', capacity) runs.

use crate::engine::*;
use crate::json::{self, J};
use crate::prng::{derive, hash_bytes, Digest, Rng};
use crate::util;
use crate::workload;
use std::collections::HashSet;
use std::panic::{catch_unwind, AssertUnwindSafe};

pub struct BlobEngine;

#[derive(Clone, Debug, PartialEq)]
pub enum StoreOp {
    /// blob as written
    Intact,
    /// crash during the write: only the first n bytes are durable
    TornPrefix(usize),
    /// crash during the write into a preallocated file: first n bytes, rest reads as zeros
    TornZeroFill(usize),
    /// crash while overwriting an older object: first n bytes new, rest from the old blob
    TornOldTail(usize),
    /// byte `i` of the frame header overwritten with `v`
    HeaderByte(usize, u8),
    /// single bit flipped at bit index
    BitFlip(usize),
    /// first n bytes zeroed
    ZeroHead(usize),
    /// something else entirely was stored under the key: 0 empty, 1 random bytes (seed,len),
    /// 2 the original file, 3 the uncompressed container
    Foreign(u8, u64, usize),
    /// garbage appended after the frame
    TrailingGarbage(usize, u64),
}

impl StoreOp {
    pub fn class(&self) -> &'static str {
        match self {
            StoreOp::Intact => "intact",
            StoreOp::TornPrefix(_) => "torn_prefix",
            StoreOp::TornZeroFill(_) => "torn_zero_fill",
            StoreOp::TornOldTail(_) => "torn_old_tail",
            StoreOp::HeaderByte(..) => "header_byte",
            StoreOp::BitFlip(_) => "bit_flip",
            StoreOp::ZeroHead(_) => "zero_head",
            StoreOp::Foreign(..) => "foreign_object",
            StoreOp::TrailingGarbage(..) => "trailing_garbage",
        }
    }
    pub fn to_json(&self) -> J {
        let (a, b, c): (u64, u64, u64) = match self {
            StoreOp::Intact => (0, 0, 0),
            StoreOp::TornPrefix(n) | StoreOp::TornZeroFill(n) | StoreOp::TornOldTail(n) | StoreOp::ZeroHead(n) | StoreOp::BitFlip(n) => (*n as u64, 0, 0),
            StoreOp::HeaderByte(i, v) => (*i as u64, *v as u64, 0),
            StoreOp::Foreign(k, s, l) => (*k as u64, *s, *l as u64),
            StoreOp::TrailingGarbage(n, s) => (*n as u64, *s, 0),
        };
        J::obj().set("op", J::str(self.class())).set("a", J::u(a)).set("b", J::u(b)).set("c", J::u(c))
    }
    pub fn from_json(j: &J) -> Result<StoreOp, String> {
        let a = j.get_u64("a").ok_or("a")?;
        let b = j.get_u64("b").ok_or("b")?;
        let c = j.get_u64("c").ok_or("c")?;
        Ok(match j.get_str("op").ok_or("op")? {
            "intact" => StoreOp::Intact,
            "torn_prefix" => StoreOp::TornPrefix(a as usize),
            "torn_zero_fill" => StoreOp::TornZeroFill(a as usize),
            "torn_old_tail" => StoreOp::TornOldTail(a as usize),
            "header_byte" => StoreOp::HeaderByte(a as usize, b as u8),
            "bit_flip" => StoreOp::BitFlip(a as usize),
            "zero_head" => StoreOp::ZeroHead(a as usize),
            "foreign_object" => StoreOp::Foreign(a as u8, b, c as usize),
            "trailing_garbage" => StoreOp::TrailingGarbage(a as usize, b),
            _ => return Err("op".into()),
        })
    }
}

pub struct Prepared {
    pub file: Vec<u8>,
    pub expanded: Vec<u8>,
    pub blob: Vec<u8>,
    /// an older object under the same key (for torn overwrites)
    pub old_blob: Vec<u8>,
    pub wl_hash: u64,
}

pub fn prepare(file: Vec<u8>) -> Result<Prepared, String> {
    let p = crate::engine_io::prepare(file)?;
    let blob = match catch_unwind(AssertUnwindSafe(|| preflate_rs::compress_zstd(&p.file, 0))) {
        Ok(Ok(b)) => b,
        // compress_zstd failing where expand succeeded is a C11 matter, but it cannot be
        // expressed as a decompress run; report through a dedicated reason
        Ok(Err(e)) => return Err(format!("compress_zstd_err:{}", e.exit_code().as_integer_error_code())),
        Err(_) => return Err(format!("compress_zstd_panic:{}", util::panic_site(&util::take_last_panic()))),
    };
    // an unrelated older object: zstd frame of some other content
    let mut rng = Rng::new(p.wl_hash ^ 0x01d);
    let mut old_plain = vec![0u8; blob.len() * 2 + 64];
    rng.fill(&mut old_plain);
    for b in old_plain.iter_mut() {
        *b &= 0x1f;
    }
    let old_blob = zstd::bulk::compress(&old_plain, 3).unwrap_or_default();
    Ok(Prepared {
        wl_hash: p.wl_hash,
        expanded: p.e,
        file: p.file,
        blob,
        old_blob,
    })
}

pub fn apply(prep: &Prepared, op: &StoreOp) -> Vec<u8> {
    let b = &prep.blob;
    match op {
        StoreOp::Intact => b.clone(),
        StoreOp::TornPrefix(n) => b[..(*n).min(b.len())].to_vec(),
        StoreOp::TornZeroFill(n) => {
            let mut v = b.clone();
            for x in v.iter_mut().skip(*n) {
                *x = 0;
            }
            v
        }
        StoreOp::TornOldTail(n) => {
            let n = (*n).min(b.len());
            let mut v = b[..n].to_vec();
            if prep.old_blob.len() > n {
                v.extend_from_slice(&prep.old_blob[n..]);
            }
            v
        }
        StoreOp::HeaderByte(i, val) => {
            let mut v = b.clone();
            if *i < v.len() {
                v[*i] = *val;
            }
            v
        }
        StoreOp::BitFlip(bit) => {
            let mut v = b.clone();
            if bit / 8 < v.len() {
                v[bit / 8] ^= 1 << (bit % 8);
            }
            v
        }
        StoreOp::ZeroHead(n) => {
            let mut v = b.clone();
            for x in v.iter_mut().take(*n) {
                *x = 0;
            }
            v
        }
        StoreOp::Foreign(kind, seed, len) => match kind {
            0 => Vec::new(),
            1 => {
                let mut v = vec![0u8; *len];
                Rng::new(*seed).fill(&mut v);
                v
            }
            2 => prep.file.clone(),
            _ => prep.expanded.clone(),
        },
        StoreOp::TrailingGarbage(n, seed) => {
            let mut v = b.clone();
            let start = v.len();
            v.resize(start + *n, 0);
            Rng::new(*seed).fill(&mut v[start..]);
            v
        }
    }
}

#[derive(Debug, Clone, PartialEq)]
pub enum CallResult {
    Ok(Vec<u8>),
    Err(i32),
    Panic(String),
    /// not executed (damaged object that zstd still accepts)
    Skipped,
}

pub struct RunOutcome {
    pub result: CallResult,
    /// does zstd itself (same library, ample budget) accept the stored object?
    pub zstd_accepts: bool,
    pub stored_equals_blob: bool,
    pub digest: u64,
}

const AMPLE: usize = 1 << 20;

pub fn execute(prep: &Prepared, op: &StoreOp, capacity: usize) -> RunOutcome {
    execute_with_history(prep, op, capacity, false)
}

/// `warm`: the judged call is preceded, on the same thread, by a successful call on the intact blob
/// with an ample budget (a budget must be enforced per call, whatever this thread did before)
pub fn execute_with_history(prep: &Prepared, op: &StoreOp, capacity: usize, warm: bool) -> RunOutcome {
    if warm {
        let _ = catch_unwind(AssertUnwindSafe(|| preflate_rs::decompress_zstd(&prep.blob, prep.expanded.len() * 2 + (1 << 20))));
        let _ = util::take_last_panic();
    }
    let stored = apply(prep, op);
    let stored_equals_blob = stored == prep.blob;
    // an empty object is zero frames for zstd's bulk API (Ok(empty)); it is not a zstd frame
    let zstd_accepts = !stored.is_empty() && zstd::bulk::decompress(&stored, prep.expanded.len() * 2 + AMPLE).is_ok();
    if !stored_equals_blob && zstd_accepts {
        // Damaged, yet still a well-formed frame for zstd (the bulk API writes no checksum): the
        // statement promises nothing here, and the library below zstd would be parsing a corrupt
        // container (it may try to allocate 4 GiB for a garbage length field). Not executed.
        let mut d = Digest::default();
        d.bytes(&stored);
        d.u64(capacity as u64);
        d.u64(0x5419);
        return RunOutcome {
            result: CallResult::Skipped,
            zstd_accepts,
            stored_equals_blob,
            digest: d.0,
        };
    }
    let res = catch_unwind(AssertUnwindSafe(|| preflate_rs::decompress_zstd(&stored, capacity)));
    let result = match res {
        Ok(Ok(v)) => CallResult::Ok(v),
        Ok(Err(e)) => CallResult::Err(e.exit_code().as_integer_error_code()),
        Err(_) => CallResult::Panic(util::take_last_panic()),
    };
    let mut d = Digest::default();
    d.bytes(&stored);
    d.u64(capacity as u64);
    match &result {
        CallResult::Ok(v) => {
            d.u64(1);
            d.bytes(v);
        }
        CallResult::Err(c) => d.u64(0x100 + *c as u64),
        CallResult::Panic(_) => d.u64(0xdead),
        CallResult::Skipped => d.u64(0x5419),
    }
    RunOutcome {
        result,
        zstd_accepts,
        stored_equals_blob,
        digest: d.0,
    }
}

pub fn judge(prep: &Prepared, capacity: usize, out: &RunOutcome) -> Option<(String, String)> {
    let e = prep.expanded.len();
    if out.stored_equals_blob {
        return match &out.result {
            CallResult::Panic(m) => Some(("panic".into(), format!("decompress_zstd panicked on the intact blob (capacity {} vs expanded size {}): {}", capacity, e, m))),
            CallResult::Ok(v) if capacity < e => Some((
                "capacity_not_enforced".into(),
                format!("capacity {} is below the expanded size {} but the call returned Ok ({} bytes)", capacity, e, v.len()),
            )),
            CallResult::Ok(v) if *v != prep.file => {
                let trunc = v.len() < prep.file.len() && prep.file[..v.len()] == v[..];
                Some((
                    if trunc { "truncated_as_ok".into() } else { "wrong_data".into() },
                    format!("intact blob, capacity {} >= {}: returned Ok with {} bytes, original has {}", capacity, e, v.len(), prep.file.len()),
                ))
            }
            CallResult::Ok(_) => None,
            CallResult::Err(c) if capacity >= e => Some((
                "sufficient_capacity_failed".into(),
                format!("intact blob and capacity {} >= expanded size {} but the call failed with exit code {}", capacity, e, c),
            )),
            CallResult::Err(_) | CallResult::Skipped => None,
        };
    }
    if !out.zstd_accepts {
        // not a (complete, well-formed) zstd frame: must be an error, never a panic, never data
        return match &out.result {
            CallResult::Panic(m) => Some(("panic".into(), format!("decompress_zstd panicked on a stored object that zstd rejects: {}", m))),
            CallResult::Ok(v) => {
                let trunc = v.len() < prep.file.len() && prep.file[..v.len()] == v[..];
                Some((
                    if trunc { "truncated_as_ok".into() } else { "damaged_blob_accepted".into() },
                    format!("stored object is not a valid zstd frame but the call returned Ok with {} bytes (original {})", v.len(), prep.file.len()),
                ))
            }
            CallResult::Err(_) | CallResult::Skipped => None,
        };
    }
    // damaged but still a well-formed frame for zstd: the statement promises nothing; not judged
    None
}

fn op_key(op: &StoreOp, capacity: usize) -> u64 {
    let mut d = Digest::default();
    d.str(&op.to_json().to_string());
    d.u64(capacity as u64);
    d.0
}

fn cap_class(prep: &Prepared, capacity: usize) -> &'static str {
    let e = prep.expanded.len();
    if capacity == 0 {
        "zero"
    } else if capacity + 1 == e {
        "size_minus_1"
    } else if capacity == e {
        "exact"
    } else if capacity == e + 1 {
        "size_plus_1"
    } else if capacity < e {
        "below"
    } else {
        "above"
    }
}

pub fn replay_doc(prep: &Prepared, gen: Option<(u64, u64, &str)>, op: &StoreOp, capacity: usize, with_bytes: bool) -> J {
    let mut doc = J::obj()
        .set("engine", J::str("blob"))
        .set("workload_hash", J::Str(format!("{:016x}", prep.wl_hash)))
        .set("plan_key", J::Str(format!("{:016x}", op_key(op, capacity))))
        .set("plan", J::obj().set("store_op", op.to_json()).set("capacity", J::u(capacity as u64)))
        .set("expanded_len", J::u(prep.expanded.len() as u64))
        .set("blob_len", J::u(prep.blob.len() as u64));
    if let Some((master, job, tier)) = gen {
        doc.put(
            "workload_gen",
            J::obj().set("engine", J::str("blob")).set("master_seed", J::u(master)).set("job", J::u(job)).set("tier", J::str(tier)),
        );
    }
    if with_bytes {
        doc.put("workload_hex", J::Str(json::hex(&prep.file)));
    }
    doc
}

fn rng_len(job: u64, lo: u64, hi: u64) -> usize {
    (lo + crate::prng::splitmix64(job ^ 0x1e4) % (hi - lo + 1)) as usize
}

fn job_workload(master: u64, job: u64, tier: Tier) -> Vec<u8> {
    if tier == Tier::Thorough && job >= 1500 {
        if let Some(f) = workload::sample_file((job - 1500) as usize) {
            return f;
        }
    }
    let mut rng = Rng::new(derive(master ^ 0xb10b, job));
    if job % 16 == 7 {
        // expanded form hundreds of times larger than the file
        return workload::gen_high_ratio_file(&mut rng, rng_len(job, 60_000, 900_000));
    }
    if job % 16 == 3 {
        return workload::gen_png_edge_file(&mut rng);
    }
    if job % 16 == 1 {
        return workload::gen_cut_trailer_file(&mut rng);
    }
    if job % 16 == 13 {
        // expanded sizes at the boundaries of the zstd frame header (content size field of 1, 2,
        // 4 bytes; the 2 byte form is biased by 256; single-segment frames end at the window size)
        const SIZES: [usize; 12] = [255, 256, 257, 511, 512, 65791, 65792, 65793, 131071, 131072, 131073, 1 << 20];
        let k = (job / 16) as usize;
        let mut e = SIZES[k % SIZES.len()];
        if tier == Tier::Thorough {
            const BIG: [usize; 8] = [(4 << 20) - 1, 4 << 20, (4 << 20) + 1, (8 << 20) + 1, (16 << 20) + 1000, (16 << 20) - 1, (32 << 20) + 100_000, 16 << 20];
            if k % 3 == 2 {
                e = BIG[(k / 3) % BIG.len()];
            }
        }
        return workload::gen_file_with_expanded_size(e);
    }
    if job % 16 == 15 {
        // the file is itself a zstd frame: the library's own output (a directory processed twice) or a foreign .zst
        let inner = workload::gen_file(&mut rng, workload::SMALL).file;
        return if rng.chance(1, 2) {
            match std::panic::catch_unwind(|| preflate_rs::compress_zstd(&inner, 0)) {
                Ok(Ok(b)) => b,
                _ => zstd::bulk::compress(&inner, 3).unwrap_or(inner),
            }
        } else {
            zstd::bulk::compress(&inner, rng.range(1, 12) as i32).unwrap_or(inner)
        };
    }
    if job % 16 == 11 {
        // the file is larger than its expanded form (budget >= expanded size must still suffice)
        return workload::gen_file_larger_than_expanded(&mut rng);
    }
    if job % 16 == 9 {
        // chunk boundary of the expanded form on a 128 KiB (zstd block) boundary
        return workload::gen_block_aligned_file(&mut rng, 1 + (job / 16 % 2) as usize);
    }
    if job % 16 == 5 {
        // a large incompressible file (stored media, encrypted data): the zstd frame consists of
        // raw blocks and is larger than the expanded form minus nothing
        let len = rng.range(660_000, 1_400_000) as usize;
        let mut f = workload::gen_incompressible(&mut rng, len);
        if rng.chance(1, 2) {
            let wl = workload::gen_file(&mut rng, workload::SMALL);
            f.extend_from_slice(&wl.file);
        }
        return f;
    }
    let sc = match (tier, job % 10) {
        (Tier::Quick, 9) => workload::MEDIUM,
        (Tier::Quick, _) => workload::SMALL,
        (Tier::Thorough, 0..=4) => workload::SMALL,
        (Tier::Thorough, 5..=8) => workload::MEDIUM,
        (Tier::Thorough, _) => workload::LARGE,
    };
    workload::gen_file(&mut rng, sc).file
}

fn observed(out: &RunOutcome) -> J {
    J::obj()
        .set(
            "result",
            match &out.result {
                CallResult::Ok(v) => J::Str(format!("Ok({} bytes)", v.len())),
                CallResult::Err(c) => J::Str(format!("Err(exit_code={})", c)),
                CallResult::Panic(m) => J::Str(format!("panic: {}", m)),
                CallResult::Skipped => J::str("not executed (damaged object that zstd still accepts)"),
            },
        )
        .set("zstd_accepts_stored_object", J::Bool(out.zstd_accepts))
        .set("stored_equals_blob", J::Bool(out.stored_equals_blob))
}

impl Engine for BlobEngine {
    fn info(&self) -> EngineInfo {
        EngineInfo {
            property: "C11",
            name: "simstore blob",
            level: "fault_enumeration",
            rule: "per workload (generated file F, B = compress_zstd(F)): every proper prefix of B (torn write; complete for |B| <= 4096, first/last 96 plus a seeded stride sample beyond), each prefix again zero-filled to full length and with the tail of an older object, every single-bit flip and 3 overwrites of each of the first 8 header bytes, zeroed heads, seeded bit flips in the body, foreign objects (empty, random, F itself, the uncompressed container), trailing garbage; capacities 0, 1, E-2..E+2, E+2^k, seeded below and above around the exact expanded size E. Distinct = distinct (workload, store operation with exact argument, capacity); non-trivial = the stored object differs from B or the capacity is not the ample default.",
            real_components: &[
                "preflate-rs working tree: compress_zstd, decompress_zstd, expand/recreate below them",
                "zstd (C library, bulk API) both inside the library and as the harness's classifier of 'is a zstd frame'",
            ],
            stub_components: &["blob store: byte vector with torn-write / header-smash / replace operations", "memory budget: the capacity argument"],
            assumptions: &[
                "a stored object that zstd itself still accepts (bit flip inside a well-formed frame; the bulk API writes no checksum) is executed but not judged",
                "capacities beyond E + 64 MiB are not explored (zstd::bulk::decompress allocates the caller's number up front)",
                "workloads whose fault-free expand/recreate round trip fails are skipped (C01 territory)",
            ],
            state_measure: "distinct (store operation class, capacity class, zstd verdict, outcome) tuples: see abstract_states",
        }
    }

    fn jobs(&self, tier: Tier) -> u64 {
        match tier {
            Tier::Quick => 64,
            Tier::Thorough => 1500 + workload::SAMPLE_FILES.len() as u64,
        }
    }

    fn expected_probes(&self, _tier: Tier) -> Vec<&'static str> {
        vec![
            "probe.capacity_exact",
            "probe.capacity_minus_1",
            "probe.torn_inside_header",
            "probe.torn_last_byte_missing",
            "probe.damage_undetected_by_zstd",
            "probe.foreign_container",
            "probe.blob_with_several_zstd_blocks",
            "probe.file_larger_than_expanded_form",
        ]
    }

    fn run_job(&self, ctx: &JobCtx) -> JobResult {
        let mut res = JobResult {
            job: ctx.job,
            ..Default::default()
        };
        let file = job_workload(ctx.master_seed, ctx.job, ctx.tier);
        let prep = match prepare(file) {
            Ok(p) => p,
            Err(reason) if reason.starts_with("compress_zstd") => {
                // expand/recreate round-trips but compress_zstd(F) itself failed
                let file = job_workload(ctx.master_seed, ctx.job, ctx.tier);
                let h = hash_bytes(&file);
                res.evaluations += 1;
                res.digest = hash_bytes(reason.as_bytes());
                res.violations.push(Violation {
                    clause: "compress_failed".into(),
                    key: format!("compress_failed:{}:{:016x}", reason, h),
                    what: format!("compress_zstd failed on a file that expands and round-trips fault-free: {}", reason),
                    replay: J::obj()
                        .set("engine", J::str("blob"))
                        .set("workload_hash", J::Str(format!("{:016x}", h)))
                        .set("plan_key", J::str("compress"))
                        .set("plan", J::obj().set("store_op", StoreOp::Intact.to_json()).set("capacity", J::u(0)))
                        .set("workload_hex", J::Str(json::hex(&file))),
                });
                return res;
            }
            Err(reason) => {
                let file = job_workload(ctx.master_seed, ctx.job, ctx.tier);
                if crate::engine_upgrade::reference_roundtrips(&file) {
                    // the reference build (pinned release + recorded fixes) handles this file: the
                    // round trip through the zstd wrappers must work on this tree as well
                    let r = catch_unwind(AssertUnwindSafe(|| preflate_rs::compress_zstd(&file, 0).and_then(|b| preflate_rs::decompress_zstd(&b, 256 << 20))));
                    let ok = matches!(&r, Ok(Ok(v)) if *v == file);
                    if !ok {
                        let _ = util::take_last_panic();
                        let h = hash_bytes(&file);
                        res.evaluations += 1;
                        res.digest = hash_bytes(reason.as_bytes());
                        res.violations.push(Violation {
                            clause: "roundtrip_regression".into(),
                            key: format!("roundtrip_regression:{}:{:016x}", reason, h),
                            what: format!("decompress_zstd(compress_zstd(F)) does not return F for a file that the reference build round-trips (fault-free baseline on this tree: {})", reason),
                            replay: J::obj()
                                .set("engine", J::str("blob"))
                                .set("workload_hash", J::Str(format!("{:016x}", h)))
                                .set("plan_key", J::str("roundtrip"))
                                .set("plan", J::obj().set("store_op", StoreOp::Intact.to_json()).set("capacity", J::u(256 << 20)))
                                .set("workload_hex", J::Str(json::hex(&file))),
                        });
                        return res;
                    }
                }
                res.bump("baseline_rejected");
                res.bump(&format!("baseline_rejected.{}", reason));
                res.digest = hash_bytes(reason.as_bytes());
                return res;
            }
        };
        res.bump("workloads");
        if prep.file.len() > prep.expanded.len() {
            res.bump("probe.file_larger_than_expanded_form");
        }
        let e = prep.expanded.len();
        let blen = prep.blob.len();
        let ample = e + 4096;
        let mut rng = Rng::new(derive(ctx.master_seed ^ 0xb10b2, ctx.job));
        let mut digest = Digest::default();
        digest.u64(prep.wl_hash);
        let mut seen: HashSet<u64> = HashSet::new();

        let mut plans: Vec<(StoreOp, usize)> = Vec::new();
        // plans with index >= warm_from are executed after a warm-up call (see execute_with_history)
        #[allow(unused_assignments)]
        let mut warm_from = usize::MAX;
        // capacities on the intact blob
        let mut caps: Vec<usize> = vec![0, 1, e.saturating_sub(2), e.saturating_sub(1), e, e + 1, e + 2, ample];
        for k in [4usize, 8, 12, 16, 20, 24, 26] {
            caps.push(e + (1 << k));
        }
        for _ in 0..8 {
            caps.push(rng.range(0, e as u64) as usize);
            caps.push(e + rng.range(0, 1 << 22) as usize);
        }
        caps.push(e / 2);
        caps.push(blen);
        caps.push(prep.file.len());
        // every structural boundary of the expanded form (a budget that ends exactly between two
        // chunks or fields), +-1
        for b in crate::simio::parse_layout(&prep.expanded).boundaries() {
            for d in [-1i64, 0, 1] {
                let c = b as i64 + d;
                if c >= 0 {
                    caps.push(c as usize);
                }
            }
        }
        // complete enumeration below the boundary for small expanded forms (a refused budget costs microseconds)
        let complete_caps = e <= if ctx.tier == Tier::Thorough { 256 * 1024 } else { 24 * 1024 };
        if complete_caps {
            caps.extend(0..e);
            res.bump("workloads_with_complete_capacity_enumeration");
        }
        caps.sort();
        caps.dedup();
        for &c in caps.iter() {
            plans.push((StoreOp::Intact, c));
        }
        // torn writes
        let full = blen <= 4096 || ctx.tier == Tier::Thorough && blen <= 32768;
        let mut cuts: Vec<usize> = if full {
            (0..blen).collect()
        } else {
            let mut v: Vec<usize> = (0..96.min(blen)).collect();
            v.extend(blen.saturating_sub(96)..blen);
            for _ in 0..1500 {
                v.push(rng.usize_below(blen));
            }
            v
        };
        // every zstd block boundary of the blob, +-1 (a torn write that happens to end with a complete block)
        let block_ends = workload::zstd_block_ends(&prep.blob);
        for &b in block_ends.iter() {
            for d in [-1i64, 0, 1] {
                let c = b as i64 + d;
                if c >= 0 && (c as usize) < blen {
                    cuts.push(c as usize);
                }
            }
        }
        if block_ends.len() > 1 {
            res.bump("probe.blob_with_several_zstd_blocks");
        }
        cuts.sort();
        cuts.dedup();
        if full {
            res.bump("workloads_with_complete_prefix_enumeration");
        }
        for &n in cuts.iter() {
            plans.push((StoreOp::TornPrefix(n), ample));
            plans.push((StoreOp::TornZeroFill(n), ample));
            plans.push((StoreOp::TornOldTail(n), ample));
            if n % 7 == 0 {
                plans.push((StoreOp::TornPrefix(n), e));
            }
        }
        // destroyed header
        for i in 0..8.min(blen) {
            for v in [0u8, 0xff, rng.below(256) as u8] {
                plans.push((StoreOp::HeaderByte(i, v), ample));
            }
            for bit in 0..8 {
                plans.push((StoreOp::BitFlip(i * 8 + bit), ample));
            }
        }
        for n in 1..=8 {
            plans.push((StoreOp::ZeroHead(n), ample));
        }
        for _ in 0..200 {
            plans.push((StoreOp::BitFlip(rng.usize_below(blen * 8)), ample));
        }
        // foreign objects
        plans.push((StoreOp::Foreign(0, 0, 0), ample));
        plans.push((StoreOp::Foreign(2, 0, 0), ample));
        plans.push((StoreOp::Foreign(3, 0, 0), ample));
        plans.push((StoreOp::Foreign(3, 0, 0), 0));
        for _ in 0..24 {
            let len = *rng.pick(&[1usize, 2, 3, 4, 5, 8, 9, 18, 64, 1000]);
            plans.push((StoreOp::Foreign(1, rng.next_u64(), len), ample));
        }
        for n in [1usize, 4, 18] {
            plans.push((StoreOp::TrailingGarbage(n, rng.next_u64()), ample));
        }
        // combinations: damaged object under a tight budget
        for _ in 0..64 {
            let op = match rng.below(3) {
                0 => StoreOp::TornPrefix(rng.usize_below(blen)),
                1 => StoreOp::HeaderByte(rng.usize_below(8.min(blen)), rng.below(256) as u8),
                _ => StoreOp::BitFlip(rng.usize_below(blen * 8)),
            };
            let c = *rng.pick(&[0usize, 1, e.saturating_sub(1), e, e + 1]);
            plans.push((op, c));
        }

        // the same boundary budgets again, each right after a successful call with an ample budget
        warm_from = plans.len();
        for c in [0usize, 1, e / 2, e.saturating_sub(2), e.saturating_sub(1), e, e + 1] {
            plans.push((StoreOp::Intact, c));
        }
        for _ in 0..6 {
            plans.push((StoreOp::Intact, rng.range(0, e as u64) as usize));
        }
        plans.push((StoreOp::TornPrefix(blen / 2), ample));
        plans.push((StoreOp::Foreign(0, 0, 0), ample));
        for (pi, (op, cap)) in plans.iter().enumerate() {
            if res.violations.len() >= 3 {
                break;
            }
            let warm = pi >= warm_from;
            announce_run(ctx, || replay_doc(&prep, Some((ctx.master_seed, ctx.job, ctx.tier.name())), op, *cap, false).set("warm", J::Bool(warm)));
            let out = execute_with_history(&prep, op, *cap, warm);
            if warm {
                res.bump("fault.history.budget_after_ample_call");
            }
            res.evaluations += 1;
            res.steps += 1;
            digest.u64(out.digest);
            let nontrivial = !out.stored_equals_blob || *cap != ample;
            if nontrivial && seen.insert(op_key(op, *cap) ^ if warm { 0x5a5a } else { 0 }) {
                res.distinct += 1;
            }
            res.bump(&format!("fault.store.{}", op.class()));
            if out.stored_equals_blob {
                res.bump(&format!("fault.capacity.{}", cap_class(&prep, *cap)));
                match cap_class(&prep, *cap) {
                    "exact" => res.bump("probe.capacity_exact"),
                    "size_minus_1" => res.bump("probe.capacity_minus_1"),
                    _ => {}
                }
            } else if out.zstd_accepts {
                res.bump("probe.damage_undetected_by_zstd");
            }
            match op {
                StoreOp::TornPrefix(n) if *n < 6 => res.bump("probe.torn_inside_header"),
                StoreOp::TornPrefix(n) if *n + 1 == blen => res.bump("probe.torn_last_byte_missing"),
                StoreOp::Foreign(3, ..) => res.bump("probe.foreign_container"),
                _ => {}
            }
            let oc = match &out.result {
                CallResult::Ok(_) => "ok",
                CallResult::Err(_) => "err",
                CallResult::Panic(_) => "panic",
                CallResult::Skipped => "not_executed",
            };
            res.bump(&format!("outcome.{}", oc));
            res.bump(&format!(
                "st.{}.{}.{}.{}",
                op.class(),
                if out.stored_equals_blob { cap_class(&prep, *cap) } else { "n/a" },
                if out.zstd_accepts { "zstd_ok" } else { "zstd_rejects" },
                oc
            ));
            if res.samples.is_empty() && matches!(op, StoreOp::TornPrefix(n) if *n > 20) {
                res.samples.push(replay_doc(&prep, None, op, *cap, false).set("observed", observed(&out)));
            }
            if let Some((clause, what)) = judge(&prep, *cap, &out) {
                let key = format!(
                    "{}:{}:{}:{:016x}",
                    clause,
                    op.class(),
                    match &out.result {
                        CallResult::Panic(m) => format!("panic@{}", util::panic_site(m)),
                        _ => cap_class(&prep, *cap).to_string(),
                    },
                    prep.wl_hash
                );
                let mut doc = replay_doc(&prep, Some((ctx.master_seed, ctx.job, ctx.tier.name())), op, *cap, true);
                doc.put("digest", J::Str(format!("{:016x}", out.digest)));
                doc.put("observed", observed(&out));
                doc.put("warm", J::Bool(warm));
                res.violations.push(Violation {
                    clause,
                    key,
                    what,
                    replay: doc,
                });
            }
        }
        res.digest = digest.0;
        res
    }

    fn replay(&self, doc: &J) -> ReplayOutcome {
        let bad = |m: String| ReplayOutcome {
            clause: None,
            digest: 0,
            detail: m,
        };
        let file = if let Some(h) = doc.get_str("workload_hex") {
            match json::unhex(h) {
                Ok(f) => f,
                Err(e) => return bad(e),
            }
        } else if let Some(g) = doc.get("workload_gen") {
            let (Some(m), Some(j), Some(t)) = (g.get_u64("master_seed"), g.get_u64("job"), g.get_str("tier").and_then(Tier::parse)) else {
                return bad("workload_gen".into());
            };
            job_workload(m, j, t)
        } else {
            return bad("no workload".into());
        };
        let Some(plan) = doc.get("plan") else { return bad("plan".into()) };
        let op = match plan.get("store_op").ok_or("store_op".to_string()).and_then(StoreOp::from_json) {
            Ok(o) => o,
            Err(e) => return bad(e),
        };
        let Some(cap) = plan.get_u64("capacity") else { return bad("capacity".into()) };
        let prep = match prepare(file) {
            Ok(p) => p,
            Err(r) if r.starts_with("compress_zstd") => {
                return ReplayOutcome {
                    clause: Some("compress_failed".into()),
                    digest: 0,
                    detail: format!("compress_zstd failed on a file that expands and round-trips fault-free: {}", r),
                }
            }
            Err(r) => {
                if doc.get_str("plan_key") == Some("roundtrip") || doc.get_str("clause") == Some("roundtrip_regression") {
                    let file = json::unhex(doc.get_str("workload_hex").unwrap_or("")).unwrap_or_default();
                    if crate::engine_upgrade::reference_roundtrips(&file) {
                        let rr = catch_unwind(AssertUnwindSafe(|| preflate_rs::compress_zstd(&file, 0).and_then(|b| preflate_rs::decompress_zstd(&b, 256 << 20))));
                        if !matches!(&rr, Ok(Ok(v)) if *v == file) {
                            let _ = util::take_last_panic();
                            return ReplayOutcome {
                                clause: Some("roundtrip_regression".into()),
                                digest: 0,
                                detail: format!("decompress_zstd(compress_zstd(F)) does not return F for a file that the reference build round-trips ({})", r),
                            };
                        }
                    }
                }
                return bad(format!("workload no longer round-trips fault-free on this tree ({})", r));
            }
        };
        let warm = doc.get("warm").and_then(|w| w.as_bool()).unwrap_or(false);
        let out = execute_with_history(&prep, &op, cap as usize, warm);
        match judge(&prep, cap as usize, &out) {
            Some((clause, what)) => ReplayOutcome {
                clause: Some(clause),
                digest: out.digest,
                detail: what,
            },
            None => ReplayOutcome {
                clause: None,
                digest: out.digest,
                detail: format!("oracle satisfied: {}", observed(&out).to_string()),
            },
        }
    }
}
