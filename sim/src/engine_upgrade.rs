//! C04 — restart with a new binary (engine `upgrade`).
//!
//! Node "old" runs the frozen reference build (`preflate_ref`, /verif/reference); node "new"
//! runs /repo's working tree. History per object: PUT served by old (analysis / expansion),
//! upgrade event (only the durable bytes survive), GET served by new (reconstruction, the
//! container layer through a fragmenting reader). Rollback reads (old reads what new wrote)
//! are executed and logged, never judged: the property is one-directional.

use crate::engine::*;
use crate::json::{self, J};
use crate::prng::{derive, hash_bytes, Digest, Rng};
use crate::simio::{new_shared, Frag, IoPlan, SimReader};
use crate::util;
use crate::workload::{self, Compressor};
use preflate_rs::verif_hooks::{VERIF_FILE_VERSION, VERIF_WRAPPER_VERSION};
use std::panic::{catch_unwind, AssertUnwindSafe};
use std::sync::Arc;

pub struct UpgradeEngine;

#[derive(Clone, Debug, PartialEq)]
pub enum Obj {
    /// raw deflate stream handled by decompress_deflate_stream / recompress_deflate_stream
    Stream(Vec<u8>),
    /// file handled by expand_zlib_chunks / recreated_zlib_chunks
    File(Vec<u8>),
}

#[derive(Clone, Debug, PartialEq)]
pub enum Verdict {
    /// reference rejected the object or cannot reconstruct its own data: precondition not met
    Skipped(String),
    /// layer not judged because a format version constant differs (announced change)
    VersionChanged,
    Ok,
    /// (clause, description)
    Violation(String, String),
}

pub struct RunOutcome {
    pub verdict: Verdict,
    pub digest: u64,
    pub params_debug: String,
    pub stored_len: usize,
    pub rollback: Option<bool>,
}

/// does the frozen reference build expand and recreate this file exactly? (arbiter for "the
/// fault-free round trip fails on this tree": a pre-existing C01 defect, or a regression)
pub fn reference_roundtrips(file: &[u8]) -> bool {
    let r = catch_unwind(AssertUnwindSafe(|| {
        let e = preflate_ref::expand_zlib_chunks(file, 0).ok()?;
        let mut out = Vec::new();
        preflate_ref::recreated_zlib_chunks(&mut std::io::Cursor::new(&e[..]), &mut out).ok()?;
        Some(out)
    }));
    match r {
        Ok(Some(out)) => out == file,
        _ => {
            let _ = util::take_last_panic();
            false
        }
    }
}

fn stream_versions_equal() -> bool {
    VERIF_FILE_VERSION == preflate_ref::REF_FILE_VERSION
}

fn container_versions_equal() -> bool {
    VERIF_WRAPPER_VERSION == preflate_ref::REF_WRAPPER_VERSION && stream_versions_equal()
}

pub fn execute(obj: &Obj, frag_seed: u64) -> RunOutcome {
    let mut d = Digest::default();
    match obj {
        Obj::Stream(data) => {
            d.u64(1);
            d.bytes(data);
            // PUT served by old
            let put = catch_unwind(AssertUnwindSafe(|| preflate_ref::decompress_deflate_stream(data, true, 0)));
            let r = match put {
                Ok(Ok(r)) => r,
                Ok(Err(e)) => {
                    d.u64(2);
                    return RunOutcome {
                        verdict: Verdict::Skipped(format!("ref_err:{}", e.exit_code().as_integer_error_code())),
                        digest: d.0,
                        params_debug: String::new(),
                        stored_len: 0,
                        rollback: None,
                    };
                }
                Err(_) => {
                    let _ = util::take_last_panic();
                    d.u64(3);
                    return RunOutcome {
                        verdict: Verdict::Skipped("ref_panic".into()),
                        digest: d.0,
                        params_debug: String::new(),
                        stored_len: 0,
                        rollback: None,
                    };
                }
            };
            let params_debug = format!("{:?}", r.parameters);
            let original = &data[..r.compressed_size];
            d.bytes(&r.plain_text);
            d.bytes(&r.prediction_corrections);
            // precondition: the reference reconstructs its own data
            let own = catch_unwind(AssertUnwindSafe(|| preflate_ref::recompress_deflate_stream(&r.plain_text, &r.prediction_corrections)));
            match own {
                Ok(Ok(b)) if b == original => {}
                _ => {
                    let _ = util::take_last_panic();
                    return RunOutcome {
                        verdict: Verdict::Skipped("ref_cannot_reconstruct_own_data".into()),
                        digest: d.0,
                        params_debug,
                        stored_len: r.prediction_corrections.len(),
                        rollback: None,
                    };
                }
            }
            // rollback read (not judged): new writes, old reads
            let rollback = match catch_unwind(AssertUnwindSafe(|| preflate_rs::decompress_deflate_stream(data, true, 0))) {
                Ok(Ok(n)) => match catch_unwind(AssertUnwindSafe(|| preflate_ref::recompress_deflate_stream(&n.plain_text, &n.prediction_corrections))) {
                    Ok(Ok(b)) => Some(b == data[..n.compressed_size]),
                    _ => {
                        let _ = util::take_last_panic();
                        Some(false)
                    }
                },
                _ => {
                    let _ = util::take_last_panic();
                    None
                }
            };
            if !stream_versions_equal() {
                return RunOutcome {
                    verdict: Verdict::VersionChanged,
                    digest: d.0,
                    params_debug,
                    stored_len: r.prediction_corrections.len(),
                    rollback,
                };
            }
            // upgrade; GET served by new
            let get = catch_unwind(AssertUnwindSafe(|| preflate_rs::recompress_deflate_stream(&r.plain_text, &r.prediction_corrections)));
            let verdict = match get {
                Ok(Ok(b)) if b == original => Verdict::Ok,
                Ok(Ok(b)) => {
                    let first = b.iter().zip(original.iter()).position(|(x, y)| x != y).unwrap_or(b.len().min(original.len()));
                    Verdict::Violation(
                        "stream_reconstructed_differently".into(),
                        format!(
                            "corrections written by the reference build: the current build reconstructs {} bytes, original has {}, first difference at byte {} (format versions unchanged)",
                            b.len(),
                            original.len(),
                            first
                        ),
                    )
                }
                Ok(Err(e)) => Verdict::Violation(
                    "stream_rejected".into(),
                    format!(
                        "corrections written by the reference build are rejected by the current build with exit code {} (format versions unchanged)",
                        e.exit_code().as_integer_error_code()
                    ),
                ),
                Err(_) => Verdict::Violation(
                    "stream_panic".into(),
                    format!("current build panics on corrections written by the reference build: {}", util::take_last_panic()),
                ),
            };
            d.u64(match &verdict {
                Verdict::Ok => 10,
                _ => 11,
            });
            RunOutcome {
                verdict,
                digest: d.0,
                params_debug,
                stored_len: r.prediction_corrections.len(),
                rollback,
            }
        }
        Obj::File(file) => {
            d.u64(2);
            d.bytes(file);
            let put = catch_unwind(AssertUnwindSafe(|| preflate_ref::expand_zlib_chunks(file, 0)));
            let e = match put {
                Ok(Ok(e)) => e,
                Ok(Err(err)) => {
                    return RunOutcome {
                        verdict: Verdict::Skipped(format!("ref_err:{}", err.exit_code().as_integer_error_code())),
                        digest: d.0,
                        params_debug: String::new(),
                        stored_len: 0,
                        rollback: None,
                    }
                }
                Err(_) => {
                    let _ = util::take_last_panic();
                    return RunOutcome {
                        verdict: Verdict::Skipped("ref_panic".into()),
                        digest: d.0,
                        params_debug: String::new(),
                        stored_len: 0,
                        rollback: None,
                    };
                }
            };
            d.bytes(&e);
            let own = catch_unwind(AssertUnwindSafe(|| {
                let mut out = Vec::new();
                preflate_ref::recreated_zlib_chunks(&mut std::io::Cursor::new(&e[..]), &mut out).map(|_| out)
            }));
            match own {
                Ok(Ok(b)) if b == *file => {}
                _ => {
                    let _ = util::take_last_panic();
                    return RunOutcome {
                        verdict: Verdict::Skipped("ref_cannot_reconstruct_own_data".into()),
                        digest: d.0,
                        params_debug: String::new(),
                        stored_len: e.len(),
                        rollback: None,
                    };
                }
            }
            let rollback = match catch_unwind(AssertUnwindSafe(|| preflate_rs::expand_zlib_chunks(file, 0))) {
                Ok(Ok(n)) => match catch_unwind(AssertUnwindSafe(|| {
                    let mut out = Vec::new();
                    preflate_ref::recreated_zlib_chunks(&mut std::io::Cursor::new(&n[..]), &mut out).map(|_| out)
                })) {
                    Ok(Ok(b)) => Some(b == *file),
                    _ => {
                        let _ = util::take_last_panic();
                        Some(false)
                    }
                },
                _ => {
                    let _ = util::take_last_panic();
                    None
                }
            };
            if !container_versions_equal() {
                return RunOutcome {
                    verdict: Verdict::VersionChanged,
                    digest: d.0,
                    params_debug: String::new(),
                    stored_len: e.len(),
                    rollback,
                };
            }
            // GET served by new, through a fragmenting reader (the I/O seam on old data)
            let plan = IoPlan {
                src_frag: match frag_seed % 4 {
                    0 => Frag::Whole,
                    1 => Frag::Seeded(7),
                    2 => Frag::Seeded(4096),
                    _ => Frag::Boundary(0),
                },
                dst_frag: Frag::Whole,
                faults: Vec::new(),
                tail_seed: frag_seed,
            };
            let layout = crate::simio::parse_layout(&e);
            let shared = new_shared(u64::MAX / 2);
            let mut reader = SimReader::new(&e, &plan, Arc::new(layout.boundaries()), shared.clone());
            let mut out: Vec<u8> = Vec::new();
            let get = catch_unwind(AssertUnwindSafe(|| preflate_rs::recreated_zlib_chunks(&mut reader, &mut out)));
            let verdict = match get {
                Ok(Ok(())) if out == *file => Verdict::Ok,
                Ok(Ok(())) => {
                    let first = out.iter().zip(file.iter()).position(|(x, y)| x != y).unwrap_or(out.len().min(file.len()));
                    Verdict::Violation(
                        "container_reconstructed_differently".into(),
                        format!(
                            "container written by the reference build: the current build writes {} bytes, original has {}, first difference at byte {} (format versions unchanged)",
                            out.len(),
                            file.len(),
                            first
                        ),
                    )
                }
                Ok(Err(err)) => Verdict::Violation(
                    "container_rejected".into(),
                    format!(
                        "container written by the reference build is rejected by the current build with exit code {} (format versions unchanged)",
                        err.exit_code().as_integer_error_code()
                    ),
                ),
                Err(_) => Verdict::Violation(
                    "container_panic".into(),
                    format!("current build panics on a container written by the reference build: {}", util::take_last_panic()),
                ),
            };
            d.u64(match &verdict {
                Verdict::Ok => 10,
                _ => 11,
            });
            RunOutcome {
                verdict,
                digest: d.0,
                params_debug: String::new(),
                stored_len: e.len(),
                rollback,
            }
        }
    }
}

fn obj_json(obj: &Obj) -> J {
    match obj {
        Obj::Stream(d) => J::obj().set("layer", J::str("stream")).set("hex", J::Str(json::hex(d))),
        Obj::File(d) => J::obj().set("layer", J::str("container")).set("hex", J::Str(json::hex(d))),
    }
}

fn obj_from(j: &J) -> Result<Obj, String> {
    let bytes = json::unhex(j.get_str("hex").ok_or("hex")?)?;
    match j.get_str("layer").ok_or("layer")? {
        "stream" => Ok(Obj::Stream(bytes)),
        "container" => Ok(Obj::File(bytes)),
        _ => Err("layer".into()),
    }
}

fn probe_params(res: &mut JobResult, p: &str) {
    for (needle, name) in [
        ("hash_algorithm: None", "hash.none"),
        ("hash_algorithm: Zlib", "hash.zlib"),
        ("MiniZFast", "hash.minizfast"),
        ("Libdeflate4Fast", "hash.libdeflate4fast"),
        ("hash_algorithm: Libdeflate4,", "hash.libdeflate4"),
        ("hash_algorithm: Libdeflate4 ", "hash.libdeflate4"),
        ("ZlibNG", "hash.zlibng"),
        ("RandomVector", "hash.randomvector"),
        ("Crc32cHash", "hash.crc32c"),
        ("add_policy: AddAll", "add.all"),
        ("AddFirst(", "add.first"),
        ("AddFirstAndLast(", "add.first_and_last"),
        ("AddFirstExcept4kBoundary", "add.except4k"),
        ("AddFirstWith32KBoundary", "add.with32k"),
        ("matching_type: Greedy", "match.greedy"),
        ("matching_type: Lazy", "match.lazy"),
        ("huff_strategy: Dynamic", "huff.dynamic"),
        ("huff_strategy: Mixed", "huff.mixed"),
        ("huff_strategy: Static", "huff.static"),
        ("strategy: Store", "strategy.store"),
        ("strategy: HuffOnly", "strategy.huffonly"),
        ("strategy: RleOnly", "strategy.rleonly"),
        ("strategy: Default", "strategy.default"),
        ("zlib_compatible: false", "not_zlib_compatible"),
        ("very_far_matches_detected: true", "very_far_matches"),
        ("matches_to_start_detected: true", "matches_to_start"),
    ] {
        if p.contains(needle) {
            res.bump(&format!("probe.ref_params.{}", name));
        }
    }
}

fn gen_objects(master: u64, job: u64, tier: Tier) -> Vec<(Obj, String)> {
    let mut rng = Rng::new(derive(master ^ 0x0409, job));
    let mut v = Vec::new();
    let (nstreams, nfiles) = match tier {
        Tier::Quick => (16, 4),
        Tier::Thorough => (20, 4),
    };
    for i in 0..nstreams {
        let big = tier == Tier::Thorough && i == 0 && job % 4 == 0;
        let (c, _p, raw) = if big {
            workload::gen_stream(&mut rng, 70000, 400000)
        } else {
            workload::gen_stream(&mut rng, 300, 24000)
        };
        let mut data = raw;
        if rng.chance(1, 4) {
            // trailing bytes after the stream (must not matter)
            let n = rng.range(1, 9) as usize;
            for _ in 0..n {
                data.push(rng.below(256) as u8);
            }
        }
        v.push((Obj::Stream(data), c.describe()));
    }
    for i in 0..nfiles {
        let sc = if tier == Tier::Thorough && i == 0 && job % 5 == 0 { workload::LARGE } else { workload::MEDIUM };
        let wl = workload::gen_file(&mut rng, sc);
        let desc = wl.members.iter().map(|m| format!("{} in {}", m.compressor.describe(), m.wrapper.describe())).collect::<Vec<_>>().join("; ");
        v.push((Obj::File(wl.file), desc));
    }
    if tier == Tier::Thorough && job % 400 == 399 {
        let (c, _p, raw) = workload::gen_giant_block_stream(&mut rng);
        v.push((Obj::Stream(raw), c.describe()));
    }
    if job % 8 == 3 {
        // far matches around the offsets where the 16-bit hash-chain positions are slid down
        let (c, _p, raw) = workload::gen_reshift_band_stream(&mut rng);
        v.push((Obj::Stream(raw), format!("reshift-band text, {}", c.describe())));
    }
    if job % 16 == 11 {
        let (c, _p, raw) = workload::gen_big_dynamic_block_stream(&mut rng);
        v.push((Obj::Stream(raw), format!("one dynamic block of > 65535 literals, {}", c.describe())));
    }
    if job % 4 == 2 {
        let (c, _p, raw) = workload::gen_tail_match_stream(&mut rng);
        v.push((Obj::Stream(raw), format!("long match at the end of input, {}", c.describe())));
        let (c, _p, raw) = workload::gen_empty_plaintext_stream(&mut rng);
        v.push((Obj::Stream(raw), format!("empty plaintext, {}", c.describe())));
    }
    if job % 64 == 5 {
        let (c, _p, raw) = workload::gen_wraparound_block_stream(&mut rng);
        v.push((Obj::Stream(raw), c.describe()));
    }
    if tier == Tier::Thorough && job < workload::SAMPLE_FILES.len() as u64 {
        if let Some(f) = workload::sample_file(job as usize) {
            v.push((Obj::File(f), format!("samples/{}", workload::SAMPLE_FILES[job as usize])));
        }
    }
    let _ = Compressor::Miniz { level: 1 };
    v
}

impl Engine for UpgradeEngine {
    fn info(&self) -> EngineInfo {
        EngineInfo {
            property: "C04",
            name: "simstore upgrade",
            level: "exploration",
            rule: "history per object: PUT served by the frozen reference build (decompress_deflate_stream(verify) for streams, expand_zlib_chunks for files), upgrade event, GET served by the working tree (recompress_deflate_stream; recreated_zlib_chunks through a fragmenting reader). Objects: seeded plaintexts x zlib (levels, strategies, windowBits, memLevel), zlib-ng, libdeflate, miniz_oxide, raw or wrapped as zlib/gzip/zip/PNG with junk in between. Judged only if both builds declare the same format versions and the reference reconstructs its own data. Distinct = distinct (object bytes, layer); non-trivial = the reference accepted the object and reconstructs its own data (the stored form is then read by the new build, or announced as not judged when a version constant differs).",
            real_components: &[
                "old node: frozen reference build /verif/reference (pinned release + recorded fixes), real code",
                "new node: preflate-rs working tree, real code",
                "zstd/cabac; compressors zlib, zlib-ng, libdeflate, miniz_oxide",
            ],
            stub_components: &["the upgrade event (process replaced, only durable bytes survive)", "source under recreated_zlib_chunks: fragmenting SimReader"],
            assumptions: &[
                "a changed VERIF_WRAPPER_VERSION / VERIF_FILE_VERSION turns the layer's judgement into an announcement (FORMAT-VERSION-CHANGED)",
                "objects the reference rejects or cannot reconstruct itself are skipped",
                "rollback reads (new writes, old reads) are executed and counted, never judged",
                "the search dimension is the object population, not the history shape (write-old, restart, read-new)",
            ],
            state_measure: "reach probes over the reference estimator's choices (hash algorithm, add policy, matching type, huffman and block strategy) and container chunk kinds: see reach_probes",
        }
    }

    fn jobs(&self, tier: Tier) -> u64 {
        match tier {
            Tier::Quick => 320,
            Tier::Thorough => 8000,
        }
    }

    fn expected_probes(&self, _tier: Tier) -> Vec<&'static str> {
        vec![
            "probe.ref_params.hash.zlib",
            "probe.ref_params.hash.minizfast",
            "probe.ref_params.hash.libdeflate4",
            "probe.ref_params.add.all",
            "probe.ref_params.add.first",
            "probe.ref_params.match.lazy",
            "probe.ref_params.match.greedy",
            "probe.ref_params.huff.dynamic",
            "probe.ref_params.strategy.store",
            "probe.container.png_chunk",
            "probe.container.deflate_chunk",
        ]
    }

    fn run_job(&self, ctx: &JobCtx) -> JobResult {
        let mut res = JobResult {
            job: ctx.job,
            ..Default::default()
        };
        let mut digest = Digest::default();
        if !stream_versions_equal() || !container_versions_equal() {
            res.notes.push(format!(
                "FORMAT-VERSION-CHANGED old=(wrapper {}, file {}) new=(wrapper {}, file {}): the affected layer is announced, not judged",
                preflate_ref::REF_WRAPPER_VERSION,
                preflate_ref::REF_FILE_VERSION,
                VERIF_WRAPPER_VERSION,
                VERIF_FILE_VERSION
            ));
        }
        let objs = gen_objects(ctx.master_seed, ctx.job, ctx.tier);
        for (i, (obj, desc)) in objs.iter().enumerate() {
            if res.violations.len() >= 2 {
                break;
            }
            let frag_seed = derive(ctx.master_seed ^ 0xf4a6, ctx.job * 64 + i as u64);
            announce_run(ctx, || {
                J::obj()
                    .set("engine", J::str("upgrade"))
                    .set("workload_hash", J::Str(format!("{:016x}", hash_bytes(match obj { Obj::Stream(d) | Obj::File(d) => d }))))
                    .set("plan_key", J::str("get"))
                    .set("object", obj_json(obj))
                    .set("frag_seed", J::u(frag_seed))
            });
            let out = execute(obj, frag_seed);
            res.evaluations += 1;
            res.steps += 3;
            digest.u64(out.digest);
            let layer = if matches!(obj, Obj::Stream(_)) { "stream" } else { "container" };
            match &out.verdict {
                Verdict::Skipped(why) => {
                    res.bump(&format!("skipped.{}.{}", layer, why));
                }
                Verdict::VersionChanged => {
                    // the object went through PUT(old) and the precondition; the GET is announced, not judged
                    res.distinct += 1;
                    res.bump(&format!("outcome.{}.version_changed_not_judged", layer))
                }
                Verdict::Ok => {
                    res.distinct += 1;
                    res.bump(&format!("outcome.{}.reconstructed_exactly", layer));
                    res.bump(&format!("fault.upgrade.{}_written_by_old_read_by_new", layer));
                }
                Verdict::Violation(..) => {
                    res.distinct += 1;
                    res.bump(&format!("outcome.{}.violation", layer));
                }
            }
            match out.rollback {
                Some(true) => res.bump(&format!("rollback.{}.old_reads_new_ok", layer)),
                Some(false) => res.bump(&format!("rollback.{}.old_reads_new_fails_not_judged", layer)),
                None => {}
            }
            if !out.params_debug.is_empty() {
                probe_params(&mut res, &out.params_debug);
            }
            if let Obj::File(_) = obj {
                if !matches!(out.verdict, Verdict::Skipped(_)) {
                    // chunk kinds of the stored container
                    if let Ok(Ok(e)) = catch_unwind(AssertUnwindSafe(|| preflate_ref::expand_zlib_chunks(match obj { Obj::File(f) => f, _ => unreachable!() }, 0))) {
                        let l = crate::simio::parse_layout(&e);
                        if l.chunk_kinds[1] > 0 {
                            res.bump("probe.container.deflate_chunk");
                        }
                        if l.chunk_kinds[2] > 0 {
                            res.bump("probe.container.png_chunk");
                        }
                        if l.max_literal > 65536 {
                            res.bump("probe.container.literal_over_64k");
                        }
                    }
                }
            }
            if res.samples.is_empty() && matches!(out.verdict, Verdict::Ok) {
                res.samples.push(
                    J::obj()
                        .set("layer", J::str(layer))
                        .set("object", J::str(desc))
                        .set("object_len", J::u(match obj { Obj::Stream(d) | Obj::File(d) => d.len() as u64 }))
                        .set("stored_len_written_by_reference", J::u(out.stored_len as u64))
                        .set("reference_parameters", J::str(&out.params_debug))
                        .set("history", J::str("PUT(old) -> upgrade -> GET(new): reconstructed exactly")),
                );
            }
            if let Verdict::Violation(clause, what) = &out.verdict {
                let h = hash_bytes(match obj {
                    Obj::Stream(d) | Obj::File(d) => d,
                });
                res.violations.push(Violation {
                    clause: clause.clone(),
                    key: format!("{}:{:016x}", clause, h),
                    what: format!("{} [{}]", what, desc),
                    replay: J::obj()
                        .set("engine", J::str("upgrade"))
                        .set("workload_hash", J::Str(format!("{:016x}", h)))
                        .set("plan_key", J::str("get"))
                        .set("object", obj_json(obj))
                        .set("object_description", J::str(desc))
                        .set("frag_seed", J::u(frag_seed))
                        .set("digest", J::Str(format!("{:016x}", out.digest)))
                        .set(
                            "versions",
                            J::Str(format!(
                                "old=(wrapper {}, file {}) new=(wrapper {}, file {})",
                                preflate_ref::REF_WRAPPER_VERSION,
                                preflate_ref::REF_FILE_VERSION,
                                VERIF_WRAPPER_VERSION,
                                VERIF_FILE_VERSION
                            )),
                        ),
                });
            }
        }
        res.digest = digest.0;
        res
    }

    fn replay(&self, doc: &J) -> ReplayOutcome {
        let obj = match doc.get("object").ok_or("object".to_string()).and_then(obj_from) {
            Ok(o) => o,
            Err(e) => {
                return ReplayOutcome {
                    clause: None,
                    digest: 0,
                    detail: format!("bad replay document: {}", e),
                }
            }
        };
        let out = execute(&obj, doc.get_u64("frag_seed").unwrap_or(0));
        match out.verdict {
            Verdict::Violation(clause, what) => ReplayOutcome {
                clause: Some(clause),
                digest: out.digest,
                detail: what,
            },
            other => ReplayOutcome {
                clause: None,
                digest: out.digest,
                detail: format!("{:?}", other),
            },
        }
    }
}
