//! C12 — the C ABI wrappers under a simulated caller (engine `cabi`).
//!
//! The caller owns a canary-guarded arena and a sentinel `result_size`; faults are the capacity
//! of the output window, a panic injected at a hook point inside real library frames, a failing
//! process stdout (fd 1 -> /dev/full) and damaged / foreign decompress input. Runs execute in
//! worker processes: an unwind across `extern "C"` aborts the process and is observed by the
//! supervisor.

use crate::engine::*;
use crate::engine_blob::StoreOp;
use crate::json::{self, J};
use crate::prng::{derive, hash_bytes, Digest, Rng};
use crate::util;
use crate::workload;
use preflate_rs::verif_hooks::{self, Site, SITE_COUNT};
use std::cell::RefCell;
use std::collections::HashSet;
use std::rc::Rc;

pub struct CabiEngine;

const CANARY: usize = 4096;
const SENTINEL: u64 = 0xDEAD_BEEF_F00D_CAFE;
const LIMIT_128M: usize = 128 * 1024 * 1024;

#[derive(Clone, Copy, Debug, PartialEq, Eq, Hash)]
pub enum Call {
    Compress,
    Decompress,
}

#[derive(Clone, Debug, PartialEq)]
pub struct CabiPlan {
    pub call: Call,
    pub capacity: usize,
    /// what the caller passes as input: compress: Intact = the file, Foreign(1,seed,len) = junk;
    /// decompress: a store operation applied to the blob
    pub input_op: StoreOp,
    /// panic injected at the n-th (1-based) passage of hook site
    pub panic_at: Option<(u8, u64)>,
    /// fd 1 of the process points at /dev/full during the call
    pub stdout_full: bool,
    /// fd 2 of the process points at /dev/full during the call (a log file on a full disk)
    pub stderr_full: bool,
}

impl CabiPlan {
    pub fn to_json(&self) -> J {
        J::obj()
            .set("call", J::str(if self.call == Call::Compress { "compress" } else { "decompress" }))
            .set("capacity", J::u(self.capacity as u64))
            .set("input_op", self.input_op.to_json())
            .set(
                "panic_at",
                match self.panic_at {
                    Some((s, n)) => J::obj().set("site", J::u(s as u64)).set("site_name", J::Str(format!("{:?}", site_of(s)))).set("n", J::u(n)),
                    None => J::Null,
                },
            )
            .set("stdout", J::str(if self.stdout_full { "/dev/full" } else { "/dev/null" }))
            .set("stderr", J::str(if self.stderr_full { "/dev/full" } else { "inherited" }))
    }
    pub fn from_json(j: &J) -> Result<CabiPlan, String> {
        Ok(CabiPlan {
            call: match j.get_str("call").ok_or("call")? {
                "compress" => Call::Compress,
                "decompress" => Call::Decompress,
                _ => return Err("call".into()),
            },
            capacity: j.get_u64("capacity").ok_or("capacity")? as usize,
            input_op: StoreOp::from_json(j.get("input_op").ok_or("input_op")?)?,
            panic_at: match j.get("panic_at") {
                Some(J::Null) | None => None,
                Some(p) => Some((p.get_u64("site").ok_or("site")? as u8, p.get_u64("n").ok_or("n")?)),
            },
            stdout_full: j.get_str("stdout") == Some("/dev/full"),
            stderr_full: j.get_str("stderr") == Some("/dev/full"),
        })
    }
    fn key(&self) -> u64 {
        let mut d = Digest::default();
        d.str(&self.to_json().to_string());
        d.0
    }
}

fn site_of(i: u8) -> Site {
    const ALL: [Site; SITE_COUNT] = [
        Site::ParseBlock,
        Site::PredictBlocksBlock,
        Site::RecreateBlocksBlock,
        Site::PredictToken,
        Site::RecreateToken,
        Site::EstimatorBlock,
        Site::HashTableBoxed,
        Site::DepthTableBoxed,
        Site::ScanSignature,
        Site::ExpandChunk,
        Site::ReadChunkEntry,
        Site::ReadChunkLiteralPiece,
        Site::ReadChunkBeforeWrite,
        Site::RecreateIdatChunk,
        Site::WrapperCompressEnter,
        Site::WrapperCompressExit,
        Site::WrapperDecompressEnter,
        Site::WrapperDecompressExit,
    ];
    ALL[(i as usize) % SITE_COUNT]
}

pub struct Prepared {
    pub file: Vec<u8>,
    pub expanded_len: usize,
    /// output of WrapperCompressZip with an ample window
    pub blob: Vec<u8>,
    pub old_blob: Vec<u8>,
    pub bound: usize,
    pub wl_hash: u64,
    pub has_zip: bool,
    /// the fault-free round trip of `file` works on this tree
    pub roundtrips: bool,
}

struct Fds {
    null: i32,
    full: i32,
}

thread_local! {
    static FDS: Fds = unsafe {
        Fds {
            null: libc::open(b"/dev/null\0".as_ptr() as *const libc::c_char, libc::O_WRONLY),
            full: libc::open(b"/dev/full\0".as_ptr() as *const libc::c_char, libc::O_WRONLY),
        }
    };
}

fn set_stdout(full: bool) {
    FDS.with(|f| unsafe {
        libc::dup2(if full { f.full } else { f.null }, 1);
    });
}

thread_local! {
    /// a saved duplicate of the process's real stderr (the worker's protocol channel)
    static REAL_STDERR: i32 = unsafe { libc::dup(2) };
}

fn set_stderr(full: bool) {
    let real = REAL_STDERR.with(|r| *r);
    FDS.with(|f| unsafe {
        libc::dup2(if full { f.full } else { real }, 2);
    });
}

pub struct RawOutcome {
    pub status: i32,
    pub result_size: u64,
    pub canary_ok: bool,
    pub input_ok: bool,
    /// the first result_size bytes of the window when status == 0 and result_size <= k
    pub out: Vec<u8>,
    pub sites: [u64; SITE_COUNT],
    pub injected_fired: bool,
}

pub fn raw_call(call: Call, input: &[u8], capacity: usize, panic_at: Option<(u8, u64)>, stdout_full: bool) -> RawOutcome {
    raw_call_ex(call, input, capacity, panic_at, stdout_full, false)
}

fn fill_pattern(buf: &mut [u8], seed: u64) {
    let mut r = Rng::new(seed);
    r.fill(buf);
}

/// one wrapper call from the simulated caller
pub fn raw_call_ex(call: Call, input: &[u8], capacity: usize, panic_at: Option<(u8, u64)>, stdout_full: bool, stderr_full: bool) -> RawOutcome {
    // input arena
    let mut in_arena = vec![0u8; CANARY + input.len() + CANARY];
    fill_pattern(&mut in_arena, 0x1a1a ^ input.len() as u64);
    in_arena[CANARY..CANARY + input.len()].copy_from_slice(input);
    let in_copy = in_arena.clone();
    // output arena
    let mut out_arena = vec![0u8; CANARY + capacity + CANARY];
    fill_pattern(&mut out_arena, 0x0b0b ^ capacity as u64);
    let pre: Vec<u8> = out_arena[..CANARY].to_vec();
    let post: Vec<u8> = out_arena[CANARY + capacity..].to_vec();
    let mut result_size: u64 = SENTINEL;

    let state = Rc::new(RefCell::new(([0u64; SITE_COUNT], false)));
    let st2 = state.clone();
    let prev = verif_hooks::set_handler(Some(Box::new(move |site: Site| {
        let idx = site as usize;
        let fire = {
            let mut s = st2.borrow_mut();
            s.0[idx] += 1;
            match panic_at {
                Some((ps, n)) if ps as usize == idx && s.0[idx] == n => {
                    s.1 = true;
                    true
                }
                _ => false,
            }
        };
        if fire {
            panic!("simulation: injected internal fault at {:?}", site);
        }
    })));
    set_stdout(stdout_full);
    if stderr_full {
        set_stderr(true);
    }
    let status = unsafe {
        let inp = in_arena.as_ptr().add(CANARY);
        let outp = out_arena.as_mut_ptr().add(CANARY);
        match call {
            Call::Compress => preflate_rs::WrapperCompressZip(inp, input.len() as u64, outp, capacity as u64, &mut result_size as *mut u64),
            Call::Decompress => preflate_rs::WrapperDecompressZip(inp, input.len() as u64, outp, capacity as u64, &mut result_size as *mut u64),
        }
    };
    set_stdout(false);
    if stderr_full {
        set_stderr(false);
    }
    verif_hooks::set_handler(prev);
    let _ = util::take_last_panic();
    let canary_ok = out_arena[..CANARY] == pre[..] && out_arena[CANARY + capacity..] == post[..];
    let input_ok = in_arena == in_copy;
    let out = if status == 0 && result_size != SENTINEL && result_size as usize <= capacity {
        out_arena[CANARY..CANARY + result_size as usize].to_vec()
    } else {
        Vec::new()
    };
    let s = state.borrow();
    RawOutcome {
        status,
        result_size,
        canary_ok,
        input_ok,
        out,
        sites: s.0,
        injected_fired: s.1,
    }
}

/// `announce` is called right before the first wrapper call (which may abort the process)
pub fn prepare(file: Vec<u8>, announce: &dyn Fn(&J)) -> Result<Prepared, String> {
    let base = crate::engine_io::prepare(file.clone())?;
    let expanded_len = base.e.len();
    let wl_hash = base.wl_hash;
    drop(base);
    let bound = zstd::zstd_safe::compress_bound(expanded_len);
    let first = CabiPlan {
        call: Call::Compress,
        capacity: bound + 4096,
        input_op: StoreOp::Intact,
        panic_at: None,
        stdout_full: false,
        stderr_full: false,
    };
    announce(
        &J::obj()
            .set("engine", J::str("cabi"))
            .set("workload_hash", J::Str(format!("{:016x}", wl_hash)))
            .set("plan_key", J::Str(format!("{:016x}", first.key())))
            .set("plan", first.to_json()),
    );
    let o = raw_call(Call::Compress, &file, bound + 4096, None, false);
    if o.status != 0 || !o.canary_ok || o.out.is_empty() {
        return Err(format!("ample_compress_failed:status={},canaries_intact={}", o.status, o.canary_ok));
    }
    let mut rng = Rng::new(wl_hash ^ 0x01d);
    let mut old_plain = vec![0u8; o.out.len() * 2 + 64];
    rng.fill(&mut old_plain);
    for b in old_plain.iter_mut() {
        *b &= 0x1f;
    }
    let old_blob = zstd::bulk::compress(&old_plain, 3).unwrap_or_default();
    let has_zip = file.windows(4).any(|w| w == [0x50, 0x4b, 0x03, 0x04]);
    Ok(Prepared {
        file,
        expanded_len,
        blob: o.out,
        old_blob,
        bound,
        wl_hash,
        has_zip,
        roundtrips: true,
    })
}

/// compress then decompress through the two wrappers with ample windows; Some(description) if
/// that does not return the file
fn wrapper_roundtrip_failure(file: &[u8], announce: &dyn Fn(&J)) -> Option<String> {
    announce(
        &J::obj()
            .set("engine", J::str("cabi"))
            .set("workload_hash", J::Str(format!("{:016x}", hash_bytes(file))))
            .set("plan_key", J::str("roundtrip"))
            .set("plan", J::str("wrapper_roundtrip")),
    );
    let cap = zstd::zstd_safe::compress_bound(file.len() * 2 + 65536) + 65536;
    let c = raw_call(Call::Compress, file, cap, None, false);
    if c.status != 0 {
        return Some(format!("WrapperCompressZip returned {} with an ample window", c.status));
    }
    let d = raw_call(Call::Decompress, &c.out, file.len() + 4096, None, false);
    if d.status != 0 || d.out != file {
        return Some(format!(
            "WrapperCompressZip returned 0 ({} bytes) but WrapperDecompressZip on that output returned {} / {} bytes (file has {})",
            c.out.len(),
            d.status,
            d.out.len(),
            file.len()
        ));
    }
    None
}

fn input_bytes(prep: &Prepared, plan: &CabiPlan) -> Vec<u8> {
    match plan.call {
        Call::Compress => match &plan.input_op {
            StoreOp::Intact => prep.file.clone(),
            StoreOp::Foreign(1, seed, len) => {
                let mut v = vec![0u8; *len];
                Rng::new(*seed).fill(&mut v);
                v
            }
            StoreOp::Foreign(4, seed, len) => {
                // junk with signature look-alikes but only 7-bit filler (no accidental streams)
                let mut r = Rng::new(*seed);
                let mut v = Vec::with_capacity(*len + 4);
                while v.len() < *len {
                    match r.below(40) {
                        0 => v.extend_from_slice(b"PK"),
                        1 => v.extend_from_slice(&[0x1f, 0x8b]),
                        2 => v.extend_from_slice(b"IDAT"),
                        _ => v.push(0x20 + r.below(0x50) as u8),
                    }
                }
                v
            }
            _ => prep.file.clone(),
        },
        Call::Decompress => {
            let bp = crate::engine_blob::Prepared {
                file: prep.file.clone(),
                expanded: Vec::new(),
                blob: prep.blob.clone(),
                old_blob: prep.old_blob.clone(),
                wl_hash: prep.wl_hash,
            };
            match &plan.input_op {
                StoreOp::Foreign(3, ..) => {
                    // the uncompressed container
                    preflate_rs::expand_zlib_chunks(&prep.file, 0).unwrap_or_default()
                }
                op => crate::engine_blob::apply(&bp, op),
            }
        }
    }
}

pub struct RunOutcome {
    /// fault-free control call of the same kind with an ample window, made right after a
    /// faulted call: once faults stop the wrappers must serve normally again
    pub followup: Option<RawOutcome>,
    pub raw: Option<RawOutcome>,
    pub input_len: usize,
    pub input_is_intact: bool,
    pub zstd_accepts: bool,
    pub digest: u64,
}

pub fn execute(prep: &Prepared, plan: &CabiPlan) -> RunOutcome {
    let input = input_bytes(prep, plan);
    let input_is_intact = match plan.call {
        Call::Compress => input == prep.file,
        Call::Decompress => input == prep.blob,
    };
    let zstd_accepts = match plan.call {
        Call::Compress => true,
        Call::Decompress => !input.is_empty() && zstd::bulk::decompress(&input, prep.expanded_len * 2 + (1 << 20)).is_ok(),
    };
    let mut d = Digest::default();
    d.bytes(&input);
    d.u64(plan.key());
    if plan.call == Call::Decompress && !input_is_intact && zstd_accepts {
        // damaged object that zstd still accepts: not executed (see engine_blob)
        d.u64(0x5419);
        return RunOutcome {
            followup: None,
            raw: None,
            input_len: input.len(),
            input_is_intact,
            zstd_accepts,
            digest: d.0,
        };
    }
    let raw = raw_call_ex(plan.call, &input, plan.capacity, plan.panic_at, plan.stdout_full, plan.stderr_full);
    d.u64(raw.status as u64);
    d.u64(if raw.status == 0 { raw.result_size } else { 0 });
    d.u64(raw.canary_ok as u64);
    d.bytes(&raw.out);
    for s in raw.sites.iter() {
        d.u64(*s);
    }
    let faulted_plan = plan.panic_at.is_some() || plan.stdout_full || plan.stderr_full || plan.input_op != StoreOp::Intact || raw.status != 0;
    let followup = if faulted_plan {
        let f = match plan.call {
            Call::Compress => raw_call(Call::Compress, &prep.file, prep.bound + 64, None, false),
            Call::Decompress => raw_call(Call::Decompress, &prep.blob, prep.file.len() + 64, None, false),
        };
        d.u64(f.status as u64);
        d.bytes(&f.out);
        Some(f)
    } else {
        None
    };
    RunOutcome {
        followup,
        raw: Some(raw),
        input_len: input.len(),
        input_is_intact,
        zstd_accepts,
        digest: d.0,
    }
}

pub fn judge(prep: &Prepared, plan: &CabiPlan, out: &RunOutcome) -> Option<(String, String)> {
    let Some(raw) = &out.raw else { return None };
    let k = plan.capacity;
    let name = if plan.call == Call::Compress { "WrapperCompressZip" } else { "WrapperDecompressZip" };
    if !raw.canary_ok {
        return Some(("wrote_outside_buffer".into(), format!("{} modified memory outside [output_buffer, output_buffer+{})", name, k)));
    }
    if !raw.input_ok {
        return Some(("input_modified".into(), format!("{} modified the caller's input buffer or its guard bytes", name)));
    }
    if raw.status == 0 && (raw.result_size == SENTINEL || raw.result_size as usize > k) {
        return Some((
            "bad_result_size".into(),
            format!("{} returned 0 with *result_size = {:#x} for an output window of {} bytes", name, raw.result_size, k),
        ));
    }
    if raw.injected_fired && raw.status >= 0 {
        return Some((
            "panic_not_reported".into(),
            format!("an internal panic was injected at {:?} but {} returned status {}", plan.panic_at.map(|p| site_of(p.0)), name, raw.status),
        ));
    }
    if let Some(f) = &out.followup {
        // service after the fault: a fault-free call with an ample window right after the faulted one
        let good = match plan.call {
            Call::Compress => f.status == 0 && f.canary_ok && f.out == prep.blob,
            Call::Decompress => f.status == 0 && f.canary_ok && f.out == prep.file,
        };
        if !good {
            return Some((
                "service_degraded_after_fault".into(),
                format!(
                    "after a faulted call ({}), a fault-free {} with an ample window returned status {} / {} bytes instead of the fault-free result",
                    if raw.injected_fired { "injected internal panic" } else if plan.stdout_full { "failing stdout" } else if plan.input_op != StoreOp::Intact { "damaged or foreign input" } else { "undersized window" },
                    name,
                    f.status,
                    f.out.len()
                ),
            ));
        }
    }
    let faulted = raw.injected_fired || plan.stdout_full;
    match plan.call {
        Call::Compress => {
            if raw.status == 0 {
                // valid output: decompressing it through the other wrapper returns the input
                let input = input_bytes(prep, plan);
                let back = raw_call(Call::Decompress, &raw.out, input.len() + 64, None, false);
                if back.status != 0 || back.out != input {
                    return Some((
                        "compress_output_invalid".into(),
                        format!(
                            "{} returned 0 with {} bytes, but decompressing them gives status {} and {} bytes (input {} bytes)",
                            name,
                            raw.result_size,
                            back.status,
                            back.out.len(),
                            input.len()
                        ),
                    ));
                }
                if out.input_is_intact && k < prep.blob.len() {
                    return Some((
                        "undersized_accepted".into(),
                        format!("{} returned 0 for a window of {} bytes although the output needs {} bytes", name, k, prep.blob.len()),
                    ));
                }
            } else if out.input_is_intact && !faulted && k >= prep.bound {
                return Some((
                    "sufficient_failed".into(),
                    format!("{} returned {} although the window ({} bytes) is at least compress_bound ({})", name, raw.status, k, prep.bound),
                ));
            } else if raw.status > 0 {
                return Some(("positive_error_status".into(), format!("{} returned positive status {}", name, raw.status)));
            }
            None
        }
        Call::Decompress => {
            if out.input_is_intact {
                let need = prep.file.len();
                if raw.status == 0 {
                    if k < need {
                        return Some((
                            "undersized_accepted".into(),
                            format!("{} returned 0 for a window of {} bytes although the file has {} bytes", name, k, need),
                        ));
                    }
                    if raw.out != prep.file {
                        return Some((
                            "wrong_data".into(),
                            format!("{} returned 0 and {} bytes that differ from the original file ({} bytes)", name, raw.out.len(), need),
                        ));
                    }
                } else if raw.status > 0 {
                    return Some(("positive_error_status".into(), format!("{} returned positive status {}", name, raw.status)));
                } else if !faulted && k >= need && prep.expanded_len <= LIMIT_128M {
                    return Some((
                        "sufficient_failed".into(),
                        format!("{} returned {} although the window ({} bytes) holds the file ({} bytes)", name, raw.status, k, need),
                    ));
                }
                None
            } else {
                // not a valid zstd frame (zstd_accepts == false here): negative status required
                if raw.status >= 0 {
                    return Some((
                        "damaged_input_accepted".into(),
                        format!("{} returned {} for input that is not a valid zstd frame ({} bytes)", name, raw.status, out.input_len),
                    ));
                }
                None
            }
        }
    }
}

fn cap_class(prep: &Prepared, plan: &CabiPlan) -> &'static str {
    let k = plan.capacity;
    let (s, b) = match plan.call {
        Call::Compress => (prep.blob.len(), prep.bound),
        Call::Decompress => (prep.file.len(), prep.file.len()),
    };
    if k == 0 {
        "zero"
    } else if k + 1 == s {
        "need_minus_1"
    } else if k == s {
        "exact"
    } else if k < s {
        "below"
    } else if k < b {
        "between_need_and_bound"
    } else if k == b {
        "bound"
    } else {
        "above"
    }
}

pub fn replay_doc(prep: &Prepared, gen: Option<(u64, u64, &str)>, plan: &CabiPlan, with_bytes: bool) -> J {
    let mut doc = J::obj()
        .set("engine", J::str("cabi"))
        .set("workload_hash", J::Str(format!("{:016x}", prep.wl_hash)))
        .set("plan_key", J::Str(format!("{:016x}", plan.key())))
        .set("plan", plan.to_json())
        .set("needed_compress", J::u(prep.blob.len() as u64))
        .set("compress_bound", J::u(prep.bound as u64))
        .set("file_len", J::u(prep.file.len() as u64));
    if let Some((master, job, tier)) = gen {
        doc.put("workload_gen", J::obj().set("master_seed", J::u(master)).set("job", J::u(job)).set("tier", J::str(tier)));
    }
    if with_bytes {
        doc.put("workload_hex", J::Str(json::hex(&prep.file)));
    }
    doc
}

fn job_workload(master: u64, job: u64, tier: Tier) -> Vec<u8> {
    if tier == Tier::Thorough && job >= 1200 {
        if let Some(f) = workload::sample_file((job - 1200) as usize) {
            return f;
        }
    }
    let mut rng = Rng::new(derive(master ^ 0xcab1, job));
    if tier == Tier::Thorough && job == 0 {
        // the 128 MiB bound: a signature-free file whose expanded form (version byte, chunk tag,
        // 4 byte varint, content) is exactly 134217728 bytes
        let len = 128 * 1024 * 1024 - 6;
        let mut f = Vec::with_capacity(len);
        let pat = b"the quick brown fox jumps over the lazy dog 0123456789\n";
        while f.len() < len {
            let n = (len - f.len()).min(pat.len());
            f.extend_from_slice(&pat[..n]);
        }
        for b in f.iter_mut() {
            if matches!(*b, 0x78 | 0x50 | 0x1f | 0x49) {
                *b = b'_';
            }
        }
        return f;
    }
    if job % 16 == 5 {
        let len = rng.range(660_000, 1_000_000) as usize;
        return workload::gen_incompressible(&mut rng, len);
    }
    if job % 16 == 9 {
        return workload::gen_png_edge_file(&mut rng);
    }
    if job % 16 == 13 {
        return workload::gen_cut_trailer_file(&mut rng);
    }
    if job % 16 == 11 {
        // a member written with a sync flush every 1-3 bytes: hundreds of tiny and empty blocks,
        // correction data that outweighs the plaintext
        let plain = workload::gen_plaintext(&mut rng, 1600);
        let c = workload::Compressor::ZlibFlushy {
            level: rng.range(1, 9) as i32,
            interval: rng.range(1, 3) as usize,
            flushed: 100000,
        };
        let raw = c.compress(&plain);
        let w = workload::Wrapper::random(&mut rng);
        let mut f = workload::wrap(&mut rng, &w, &raw, &plain);
        f.extend_from_slice(b"-- end --");
        return f;
    }
    if job % 16 == 7 {
        // expanded form hundreds of times larger than the file and than any exact-fit window
        let len = rng.range(60_000, 900_000) as usize;
        return workload::gen_high_ratio_file(&mut rng, len);
    }
    let sc = match (tier, job % 10) {
        (Tier::Quick, _) => workload::SMALL,
        (Tier::Thorough, 0..=5) => workload::SMALL,
        (Tier::Thorough, 6..=8) => workload::MEDIUM,
        (Tier::Thorough, _) => workload::LARGE,
    };
    if job % 3 == 0 {
        // make sure ZIP members (the stdout-printing path) are frequent
        let mut file = Vec::new();
        let n = rng.range(1, 2);
        for _ in 0..n {
            let target = rng.range(sc.min_plain.min(30000) as u64, sc.max_plain.min(30000) as u64) as usize;
            let plain = workload::gen_plaintext(&mut rng, target);
            let c = workload::Compressor::random(&mut rng);
            let raw = c.compress(&plain);
            let w = workload::Wrapper::Zip(rng.range(1, 20) as u16, 0);
            file.extend_from_slice(&workload::wrap(&mut rng, &w, &raw, &plain));
        }
        file.extend_from_slice(b"PK\x05\x06 end of central directory (fake)");
        file
    } else {
        workload::gen_file(&mut rng, sc).file
    }
}

fn observed(out: &RunOutcome) -> J {
    match &out.raw {
        None => J::str("not executed (damaged object that zstd still accepts)"),
        Some(r) => J::obj()
            .set("status", J::i(r.status as i64))
            .set("result_size", if r.result_size == SENTINEL { J::str("sentinel (untouched)") } else { J::u(r.result_size) })
            .set("canaries_intact", J::Bool(r.canary_ok))
            .set("input_untouched", J::Bool(r.input_ok))
            .set("injected_panic_fired", J::Bool(r.injected_fired)),
    }
}

impl Engine for CabiEngine {
    fn info(&self) -> EngineInfo {
        EngineInfo {
            property: "C12",
            name: "simstore cabi",
            level: "fault_enumeration",
            rule: "per workload: WrapperCompressZip with output windows 0, 1, S-2..S+16, B-1, B, B+1 and seeded sizes below S / between / above B (S = needed size, B = zstd compress_bound of the expanded form); WrapperDecompressZip with windows 0, 1, |F|-2..|F|+2 and seeded sizes; for both calls an internal panic injected at the first, middle and last passage of every hook site the call reaches; both calls with process stdout on /dev/full; decompress input torn / header-smashed / replaced by foreign objects; junk as compress input. Distinct = distinct (workload, call, window size, input operation, injected panic position, stdout state); non-trivial = window not ample, or a fault configured.",
            real_components: &[
                "preflate-rs working tree: WrapperCompressZip / WrapperDecompressZip (extern \"C\") and everything below",
                "zstd C library; real fd 1 of the worker process (redirected to /dev/full for the stdout fault)",
            ],
            stub_components: &[
                "caller: canary-guarded input and output arenas (4 KiB guards), sentinel *result_size",
                "internal faults: thread-local hook handler panicking at a chosen passage of a chosen site",
            ],
            assumptions: &[
                "for S <= window < compress_bound both outcomes are accepted for compression (zstd guarantees success only from compress_bound)",
                "after an injected panic or stdout fault only negativity of the status is required",
                "writes beyond the 4 KiB guard areas would go unnoticed",
                "damaged decompress input that zstd still accepts is not executed",
                "workloads whose fault-free round trip fails are skipped",
            ],
            state_measure: "distinct (call, window class, input class, fault class, status class) tuples and (site, passage class, status) tuples: see abstract_states",
        }
    }

    fn jobs(&self, tier: Tier) -> u64 {
        match tier {
            Tier::Quick => 128,
            Tier::Thorough => 1200 + workload::SAMPLE_FILES.len() as u64,
        }
    }

    fn expected_probes(&self, _tier: Tier) -> Vec<&'static str> {
        vec![
            "probe.stdout_fault_fired",
            "probe.compress_succeeded_below_bound",
            "probe.decompress_exact_fit",
            "probe.injected_panic_fired",
            "probe.compress_between_need_and_bound_failed",
        ]
        .into_iter()
        .chain(if _tier == Tier::Thorough { vec!["probe.expanded_form_exactly_128MiB"] } else { vec![] })
        .collect()
    }

    fn run_job(&self, ctx: &JobCtx) -> JobResult {
        let mut res = JobResult {
            job: ctx.job,
            ..Default::default()
        };
        let file = job_workload(ctx.master_seed, ctx.job, ctx.tier);
        let gen = J::obj().set("master_seed", J::u(ctx.master_seed)).set("job", J::u(ctx.job)).set("tier", J::str(ctx.tier.name()));
        let announce = |doc: &J| {
            if ctx.trace {
                eprintln!("@@ RUN {}", doc.clone().set("workload_gen", gen.clone()).to_string());
            }
        };
        let prep = match prepare(file.clone(), &announce) {
            Ok(p) => p,
            Err(reason) if reason.starts_with("ample_compress_failed") => {
                let h = hash_bytes(&file);
                res.evaluations += 1;
                res.digest = hash_bytes(reason.as_bytes());
                res.violations.push(Violation {
                    clause: "sufficient_failed".into(),
                    key: format!("sufficient_failed:compress:ample:{:016x}", h),
                    what: format!("WrapperCompressZip failed with a window above compress_bound on a file that round-trips fault-free: {}", reason),
                    replay: J::obj()
                        .set("engine", J::str("cabi"))
                        .set("workload_hash", J::Str(format!("{:016x}", h)))
                        .set("plan_key", J::str("ample"))
                        .set("plan", J::str("ample_compress"))
                        .set("workload_gen", gen.clone())
                        .set("workload_hex", J::Str(json::hex(&file))),
                });
                return res;
            }
            Err(reason) => {
                if crate::engine_upgrade::reference_roundtrips(&file) {
                    // the reference build handles this file, so compressing and decompressing it
                    // through the two wrappers must return it on this tree as well
                    if let Some(what) = wrapper_roundtrip_failure(&file, &announce) {
                        let h = hash_bytes(&file);
                        res.evaluations += 1;
                        res.digest = hash_bytes(reason.as_bytes());
                        res.violations.push(Violation {
                            clause: "roundtrip_regression".into(),
                            key: format!("roundtrip_regression:{:016x}", h),
                            what: format!("{} (the reference build round-trips this file; fault-free baseline on this tree: {})", what, reason),
                            replay: J::obj()
                                .set("engine", J::str("cabi"))
                                .set("workload_hash", J::Str(format!("{:016x}", h)))
                                .set("plan_key", J::str("roundtrip"))
                                .set("plan", J::str("wrapper_roundtrip"))
                                .set("workload_gen", gen.clone())
                                .set("workload_hex", J::Str(json::hex(&file))),
                        });
                        return res;
                    }
                }
                res.bump("baseline_rejected");
                res.bump(&format!("baseline_rejected.{}", reason));
                res.digest = hash_bytes(reason.as_bytes());
                return res;
            }
        };
        res.bump("workloads");
        if prep.has_zip {
            res.bump("workloads_with_zip_member");
        }
        let mut rng = Rng::new(derive(ctx.master_seed ^ 0xcab12, ctx.job));
        let huge = prep.file.len() > 64 * 1024 * 1024;
        if huge {
            res.bump("probe.expanded_form_exactly_128MiB");
        }
        let s = prep.blob.len();
        let b = prep.bound;
        let f = prep.file.len();
        let mut plans: Vec<CabiPlan> = Vec::new();
        let mk = |call, capacity| CabiPlan {
            call,
            capacity,
            input_op: StoreOp::Intact,
            panic_at: None,
            stdout_full: false,
            stderr_full: false,
        };
        // compress capacities
        let mut caps: Vec<usize> = vec![0, 1, s.saturating_sub(2), s.saturating_sub(1), b.saturating_sub(1), b, b + 1, b + 4096];
        for d in 0..=16 {
            caps.push(s + d);
        }
        for _ in 0..6 {
            caps.push(rng.range(0, s as u64) as usize);
            caps.push(rng.range(s as u64, b as u64) as usize);
            caps.push(b + rng.range(0, 1 << 16) as usize);
        }
        caps.sort();
        caps.dedup();
        for &c in caps.iter() {
            plans.push(mk(Call::Compress, c));
        }
        // decompress capacities
        let mut caps: Vec<usize> = vec![0, 1, f.saturating_sub(2), f.saturating_sub(1), f, f + 1, f + 2, f + 4096];
        for _ in 0..6 {
            caps.push(rng.range(0, f as u64) as usize);
            caps.push(f + rng.range(0, 1 << 16) as usize);
        }
        // complete enumeration of the decompress window for small files
        let thorough = ctx.tier == Tier::Thorough;
        if f <= 4096 && (thorough || ctx.job % 4 == 0) {
            caps.extend(0..=f + 2);
            res.bump("workloads_with_complete_decompress_window_enumeration");
        }
        caps.sort();
        caps.dedup();
        for &c in caps.iter() {
            plans.push(mk(Call::Decompress, c));
        }
        // complete enumeration of the compress window for small outputs (each call re-expands the file)
        if s <= 1200 && (thorough || ctx.job % 16 == 1) {
            for c in 0..=s + 24 {
                plans.push(mk(Call::Compress, c));
            }
            res.bump("workloads_with_complete_compress_window_enumeration");
        }
        // site census (fault-free) for the panic injection
        let census_c = raw_call(Call::Compress, &prep.file, b + 64, None, false);
        let census_d = raw_call(Call::Decompress, &prep.blob, f + 64, None, false);
        for (call, census, cap) in [(Call::Compress, &census_c, b + 64), (Call::Decompress, &census_d, f + 64)] {
            for site in 0..SITE_COUNT {
                let n = census.sites[site];
                if n == 0 {
                    continue;
                }
                let mut ns = vec![1, (n + 1) / 2, n];
                if n > 3 {
                    ns.push(rng.range(1, n));
                }
                ns.sort();
                ns.dedup();
                for k in ns {
                    let mut p = mk(call, cap);
                    p.panic_at = Some((site as u8, k));
                    plans.push(p.clone());
                    // the same internal fault with an exact-fit window
                    p.capacity = if call == Call::Compress { s } else { f };
                    plans.push(p);
                }
            }
        }
        // failing stdout
        for call in [Call::Compress, Call::Decompress] {
            for cap in if call == Call::Compress { [b + 64, s, 0] } else { [f + 64, f, 0] } {
                let mut p = mk(call, cap);
                p.stdout_full = true;
                plans.push(p);
            }
        }
        // failing stderr (a log file on a full disk): successful calls, undersized windows,
        // damaged input and an internal panic while fd 2 cannot be written
        for call in [Call::Compress, Call::Decompress] {
            let (ample, need) = if call == Call::Compress { (b + 64, s) } else { (f + 64, f) };
            for cap in [ample, need.saturating_sub(1), 0] {
                let mut p = mk(call, cap);
                p.stderr_full = true;
                plans.push(p);
            }
            let mut p = mk(call, ample);
            p.stderr_full = true;
            p.panic_at = Some((if call == Call::Compress { Site::ScanSignature as u8 } else { Site::ReadChunkEntry as u8 }, 1));
            plans.push(p);
        }
        {
            let mut p = mk(Call::Decompress, f + 64);
            p.stderr_full = true;
            p.input_op = StoreOp::TornPrefix(prep.blob.len() / 2);
            plans.push(p);
        }
        // damaged / foreign decompress input
        let blen = prep.blob.len();
        let mut cuts: Vec<usize> = (0..blen.min(24)).collect();
        cuts.extend(blen.saturating_sub(24)..blen);
        for _ in 0..80 {
            cuts.push(rng.usize_below(blen));
        }
        cuts.sort();
        cuts.dedup();
        for n in cuts {
            for op in [StoreOp::TornPrefix(n), StoreOp::TornZeroFill(n), StoreOp::TornOldTail(n)] {
                let mut p = mk(Call::Decompress, f + 64);
                p.input_op = op;
                plans.push(p);
            }
        }
        for i in 0..8.min(blen) {
            let mut p = mk(Call::Decompress, f + 64);
            p.input_op = StoreOp::HeaderByte(i, rng.below(256) as u8);
            plans.push(p);
            let mut p = mk(Call::Decompress, f);
            p.input_op = StoreOp::BitFlip(i * 8 + rng.usize_below(8));
            plans.push(p);
        }
        for op in [StoreOp::Foreign(0, 0, 0), StoreOp::Foreign(2, 0, 0), StoreOp::Foreign(3, 0, 0), StoreOp::TrailingGarbage(3, 7)] {
            let mut p = mk(Call::Decompress, f + 64);
            p.input_op = op;
            plans.push(p);
        }
        for _ in 0..12 {
            let mut p = mk(Call::Decompress, f + 64);
            p.input_op = StoreOp::Foreign(1, rng.next_u64(), *rng.pick(&[1usize, 4, 5, 12, 100, 3000]));
            plans.push(p);
        }
        // junk as compress input
        for _ in 0..6 {
            let len = *rng.pick(&[0usize, 1, 2, 3, 100, 5000]);
            let mut p = mk(Call::Compress, zstd::zstd_safe::compress_bound(len + 16) + 64);
            p.input_op = StoreOp::Foreign(if rng.chance(1, 2) { 1 } else { 4 }, rng.next_u64(), len);
            plans.push(p.clone());
            p.capacity = rng.range(0, 12) as usize;
            plans.push(p);
        }

        if huge {
            // only the round trip at the bound and a few windows: every call moves 128 MiB
            plans.clear();
            plans.push(mk(Call::Compress, b + 64));
            plans.push(mk(Call::Decompress, f));
            plans.push(mk(Call::Decompress, f + 1));
            plans.push(mk(Call::Decompress, f - 1));
        }
        let mut digest = Digest::default();
        digest.u64(prep.wl_hash);
        let mut seen: HashSet<u64> = HashSet::new();
        let mut stdout_pairs: Vec<(Call, i32)> = Vec::new();
        for plan in plans.iter() {
            if res.violations.len() >= 3 {
                break;
            }
            announce_run(ctx, || replay_doc(&prep, Some((ctx.master_seed, ctx.job, ctx.tier.name())), plan, false));
            let out = execute(&prep, plan);
            res.evaluations += 1;
            digest.u64(out.digest);
            let ample = match plan.call {
                Call::Compress => plan.capacity > b,
                Call::Decompress => plan.capacity > f + 2,
            };
            let nontrivial = !ample || plan.panic_at.is_some() || plan.stdout_full || plan.input_op != StoreOp::Intact;
            if nontrivial && seen.insert(plan.key()) {
                res.distinct += 1;
            }
            let callname = if plan.call == Call::Compress { "compress" } else { "decompress" };
            if let Some(raw) = &out.raw {
                res.steps += raw.sites.iter().sum::<u64>() + 1;
                let status_class = match raw.status {
                    0 => "ok",
                    -1 => "err",
                    -2 => "panic_caught",
                    _ => "other",
                };
                res.bump(&format!("outcome.{}.{}", callname, status_class));
                if plan.stderr_full {
                    res.bump(&format!("fault.{}.stderr_full", callname));
                }
                let fault_class = if raw.injected_fired {
                    "injected_panic"
                } else if plan.stdout_full {
                    "stdout_full"
                } else if plan.input_op != StoreOp::Intact {
                    plan.input_op.class()
                } else {
                    "capacity"
                };
                res.bump(&format!("fault.{}.{}", callname, fault_class));
                res.bump(&format!("st.{}.{}.{}.{}", callname, cap_class(&prep, plan), fault_class, status_class));
                if raw.injected_fired {
                    res.bump("probe.injected_panic_fired");
                    let (site, n) = plan.panic_at.unwrap();
                    res.bump(&format!("st.site.{:?}.{}.{}", site_of(site), if n == 1 { "first" } else { "later" }, status_class));
                }
                if plan.input_op == StoreOp::Intact && plan.panic_at.is_none() && !plan.stdout_full {
                    match (plan.call, cap_class(&prep, plan), raw.status) {
                        (Call::Compress, "exact", 0) => res.bump("probe.compress_exact_fit"),
                        (Call::Compress, "between_need_and_bound", 0) => res.bump("probe.compress_succeeded_below_bound"),
                        (Call::Decompress, "exact", 0) => res.bump("probe.decompress_exact_fit"),
                        (Call::Compress, "between_need_and_bound", st) if st < 0 => res.bump("probe.compress_between_need_and_bound_failed"),
                        _ => {}
                    }
                }
                if plan.stdout_full && plan.capacity > b.max(f) {
                    stdout_pairs.push((plan.call, raw.status));
                }
            } else {
                res.bump("outcome.not_executed");
            }
            if res.samples.is_empty() && plan.panic_at.is_some() {
                res.samples.push(replay_doc(&prep, None, plan, false).set("observed", observed(&out)));
            }
            if let Some((clause, what)) = judge(&prep, plan, &out) {
                let key = format!(
                    "{}:{}:{}:{}:{:016x}",
                    clause,
                    callname,
                    cap_class(&prep, plan),
                    match plan.panic_at {
                        Some((s, _)) => format!("{:?}", site_of(s)),
                        None => plan.input_op.class().to_string(),
                    },
                    prep.wl_hash
                );
                let mut doc = replay_doc(&prep, Some((ctx.master_seed, ctx.job, ctx.tier.name())), plan, true);
                doc.put("digest", J::Str(format!("{:016x}", out.digest)));
                doc.put("observed", observed(&out));
                res.violations.push(Violation {
                    clause,
                    key,
                    what,
                    replay: doc,
                });
            }
        }
        for (call, status) in stdout_pairs {
            if call == Call::Compress && status == -2 {
                res.bump("probe.stdout_fault_fired");
            }
        }
        res.digest = digest.0;
        res
    }

    fn replay(&self, doc: &J) -> ReplayOutcome {
        let bad = |m: String| ReplayOutcome {
            clause: None,
            digest: 0,
            detail: m,
        };
        let file = if let Some(h) = doc.get_str("workload_hex") {
            match json::unhex(h) {
                Ok(f) => f,
                Err(e) => return bad(e),
            }
        } else if let Some(g) = doc.get("workload_gen") {
            let (Some(m), Some(j), Some(t)) = (g.get_u64("master_seed"), g.get_u64("job"), g.get_str("tier").and_then(Tier::parse)) else {
                return bad("workload_gen".into());
            };
            job_workload(m, j, t)
        } else {
            return bad("no workload".into());
        };
        let prep = match prepare(file, &|_| {}) {
            Ok(p) => p,
            Err(r) if r.starts_with("ample_compress_failed") => {
                return ReplayOutcome {
                    clause: Some("sufficient_failed".into()),
                    digest: 0,
                    detail: format!("WrapperCompressZip failed with a window above compress_bound on a file that round-trips fault-free: {}", r),
                }
            }
            Err(r) => {
                if doc.get_str("plan") == Some("wrapper_roundtrip") {
                    let file = json::unhex(doc.get_str("workload_hex").unwrap_or("")).unwrap_or_default();
                    if crate::engine_upgrade::reference_roundtrips(&file) {
                        if let Some(what) = wrapper_roundtrip_failure(&file, &|_| {}) {
                            return ReplayOutcome {
                                clause: Some("roundtrip_regression".into()),
                                digest: 0,
                                detail: what,
                            };
                        }
                    }
                }
                return bad(format!("workload no longer usable fault-free on this tree ({})", r));
            }
        };
        if doc.get_str("plan") == Some("wrapper_roundtrip") {
            return ReplayOutcome {
                clause: None,
                digest: 0,
                detail: "wrapper round trip works".into(),
            };
        }
        if doc.get_str("plan") == Some("ample_compress") {
            return ReplayOutcome {
                clause: None,
                digest: 0,
                detail: "ample compress succeeds".into(),
            };
        }
        let plan = match doc.get("plan").ok_or("plan".to_string()).and_then(CabiPlan::from_json) {
            Ok(p) => p,
            Err(e) => return bad(e),
        };
        let out = execute(&prep, &plan);
        match judge(&prep, &plan, &out) {
            Some((clause, what)) => ReplayOutcome {
                clause: Some(clause),
                digest: out.digest,
                detail: what,
            },
            None => ReplayOutcome {
                clause: None,
                digest: out.digest,
                detail: format!("oracle satisfied: {}", observed(&out).to_string()),
            },
        }
    }
}
