//! Parametric LZ77 + DEFLATE encoder owned by the harness. Its knobs are exactly the quantities
//! the library's estimator tries to recover (hash width, dictionary insert policy and limit,
//! greedy/lazy, nice length, chain depth, window, far/start matches, block size), so that the
//! estimator's own output covers unusual vectors. Output uses fixed-Huffman and stored blocks
//! only (no tree construction needed); dynamic blocks come from the real compressors.

use crate::prng::Rng;

#[derive(Clone, Debug)]
pub struct Lz77Params {
    pub window_bits: u32,
    /// 3 or 4 byte hash
    pub hash_bytes: usize,
    /// 0 = insert every position of a match; n > 0 = only if match length <= n, else first position only
    pub insert_limit: u32,
    /// with insert_limit: also insert the last position of a long match
    pub insert_last: bool,
    /// lazy matching: (good_length, max_lazy); None = greedy
    pub lazy: Option<(u32, u32)>,
    pub nice_length: u32,
    pub max_chain: u32,
    /// 3-byte matches farther than this are dropped
    pub max_dist_3: u32,
    /// allow a match that starts at position 0 of the input (zlib never does)
    pub match_to_start: bool,
    /// allow distances up to the full window (zlib stops at window - 262)
    pub very_far: bool,
    /// tokens per block
    pub block_tokens: usize,
    /// every n-th block is emitted as a stored block (0 = never)
    pub stored_every: usize,
    /// a run of this many empty blocks (alternating empty fixed and empty stored blocks, as idle
    /// sync flushes produce them) is inserted after the first block
    pub empty_run: usize,
    /// no matches at all: every byte is a literal (with a huge block_tokens this gives one
    /// block with more than 2^20 tokens for inputs above 1 MiB)
    pub literals_only: bool,
    /// code length 258 as symbol 284 with extra bits 31 instead of symbol 285 (legal, never
    /// emitted by the mainstream compressors)
    pub irregular_258: bool,
    /// padding bits (before a stored block's LEN, after the final block) taken from this pattern
    /// instead of zero: legal, every inflater ignores them
    pub pad_bits: u8,
}

impl Lz77Params {
    pub fn random(rng: &mut Rng) -> Lz77Params {
        let lazy = if rng.chance(1, 2) {
            None
        } else {
            Some(*rng.pick(&[(4u32, 4u32), (8, 16), (8, 32), (32, 128), (32, 258)]))
        };
        let insert_limit = match rng.below(6) {
            0 | 1 => 0,
            2 => *rng.pick(&[4u32, 5, 6]),
            3 => rng.range(3, 40) as u32,
            4 => rng.range(200, 258) as u32,
            _ => rng.range(3, 258) as u32,
        };
        Lz77Params {
            window_bits: rng.range(9, 15) as u32,
            hash_bytes: if rng.chance(1, 3) { 4 } else { 3 },
            insert_limit,
            insert_last: rng.chance(1, 3),
            lazy,
            nice_length: *rng.pick(&[8u32, 16, 32, 128, 258]),
            max_chain: *rng.pick(&[1u32, 2, 4, 8, 32, 128, 1024]),
            max_dist_3: *rng.pick(&[0u32, 64, 4096, 32768]),
            match_to_start: rng.chance(1, 4),
            very_far: rng.chance(1, 4),
            block_tokens: *rng.pick(&[1usize, 2, 3, 16, 127, 511, 1000, 4095, 16383, 100000]),
            stored_every: if rng.chance(1, 5) { rng.range(2, 5) as usize } else { 0 },
            empty_run: if rng.chance(1, 6) { *rng.pick(&[1usize, 2, 5, 16, 17, 18, 40]) } else { 0 },
            literals_only: false,
            irregular_258: rng.chance(1, 10),
            pad_bits: if rng.chance(1, 8) { rng.range(1, 255) as u8 } else { 0 },
        }
    }

    pub fn describe(&self) -> String {
        format!(
            "lz77(w={},h={},ins={}{},lazy={:?},nice={},chain={},d3={},start={},far={},blk={},stored/{},empty={},lit={},irr258={},pad={:02x})",
            self.window_bits,
            self.hash_bytes,
            self.insert_limit,
            if self.insert_last { "+last" } else { "" },
            self.lazy,
            self.nice_length,
            self.max_chain,
            self.max_dist_3,
            self.match_to_start as u8,
            self.very_far as u8,
            self.block_tokens,
            self.stored_every,
            self.empty_run,
            self.literals_only as u8,
            self.irregular_258 as u8,
            self.pad_bits
        )
    }
}

#[derive(Clone, Copy, Debug)]
enum Tok {
    Lit(u8),
    Ref(u32, u32),
}

struct Matcher<'a> {
    data: &'a [u8],
    p: &'a Lz77Params,
    head: Vec<i32>,
    prev: Vec<i32>,
}

impl<'a> Matcher<'a> {
    fn hash(&self, pos: usize) -> Option<usize> {
        if pos + self.p.hash_bytes > self.data.len() {
            return None;
        }
        let d = self.data;
        let h = if self.p.hash_bytes == 3 {
            ((d[pos] as u32) << 10) ^ ((d[pos + 1] as u32) << 5) ^ (d[pos + 2] as u32)
        } else {
            u32::from_le_bytes([d[pos], d[pos + 1], d[pos + 2], d[pos + 3]]).wrapping_mul(0x9E37_79B1) >> 17
        };
        Some((h & 0x7fff) as usize)
    }

    fn insert(&mut self, pos: usize) {
        if let Some(h) = self.hash(pos) {
            self.prev[pos] = self.head[h];
            self.head[h] = pos as i32;
        }
    }

    fn find(&self, pos: usize, prev_len: u32, max_chain: u32) -> Option<(u32, u32)> {
        let h = self.hash(pos)?;
        let max_len = (self.data.len() - pos).min(258) as u32;
        if max_len < 3 {
            return None;
        }
        let wsize = 1usize << self.p.window_bits;
        let max_dist = if self.p.very_far { wsize } else { wsize - 262 };
        let mut cand = self.head[h];
        let mut chain = max_chain;
        let mut best: Option<(u32, u32)> = None;
        let mut best_len = prev_len.max(2);
        let nice = self.p.nice_length.min(max_len);
        while cand >= 0 && chain > 0 {
            let c = cand as usize;
            let dist = pos - c;
            if dist > max_dist {
                break;
            }
            if c == 0 && !self.p.match_to_start {
                break;
            }
            let mut l = 0u32;
            while l < max_len && self.data[c + l as usize] == self.data[pos + l as usize] {
                l += 1;
            }
            if l > best_len && l >= 3 && (self.p.hash_bytes == 3 || l >= 4) {
                best_len = l;
                best = Some((l, dist as u32));
                if l >= nice {
                    break;
                }
            }
            cand = self.prev[c];
            chain -= 1;
        }
        match best {
            Some((3, d)) if d > self.p.max_dist_3 => None,
            b => b,
        }
    }

    fn insert_match(&mut self, pos: usize, len: u32) {
        let lim = self.p.insert_limit;
        if lim == 0 || len <= lim {
            for i in 0..len as usize {
                self.insert(pos + i);
            }
        } else {
            self.insert(pos);
            if self.p.insert_last {
                self.insert(pos + len as usize - 1);
            }
        }
    }
}

fn tokenize(data: &[u8], p: &Lz77Params) -> Vec<Tok> {
    let mut m = Matcher {
        data,
        p,
        head: vec![-1; 32768],
        prev: vec![-1; data.len() + 1],
    };
    let mut toks = Vec::new();
    let mut pos = 0usize;
    while pos < data.len() {
        let cur = if pos == 0 || p.literals_only { None } else { m.find(pos, 0, p.max_chain) };
        match cur {
            None => {
                toks.push(Tok::Lit(data[pos]));
                m.insert(pos);
                pos += 1;
            }
            Some((len, dist)) => {
                if let Some((good, max_lazy)) = p.lazy {
                    if len < max_lazy && pos + (len as usize) + 2 <= data.len() {
                        // look one byte ahead (the current position is inserted first, as zlib does)
                        m.insert(pos);
                        let chain = if len >= good { (p.max_chain >> 2).max(1) } else { p.max_chain };
                        let better = matches!(m.find(pos + 1, len, chain), Some((l2, _)) if l2 > len);
                        if better {
                            toks.push(Tok::Lit(data[pos]));
                            pos += 1;
                            continue;
                        }
                        toks.push(Tok::Ref(len, dist));
                        // position pos is already inserted
                        let lim = p.insert_limit;
                        if lim == 0 || len <= lim {
                            for i in 1..len as usize {
                                m.insert(pos + i);
                            }
                        } else if p.insert_last {
                            m.insert(pos + len as usize - 1);
                        }
                        pos += len as usize;
                        continue;
                    }
                }
                toks.push(Tok::Ref(len, dist));
                m.insert_match(pos, len);
                pos += len as usize;
            }
        }
    }
    toks
}

struct BitWriter {
    out: Vec<u8>,
    acc: u64,
    n: u32,
    /// pattern for the padding bits in front of a stored block's LEN field and after the last block
    pad: u8,
}

impl BitWriter {
    fn bits(&mut self, v: u32, n: u32) {
        self.acc |= (v as u64) << self.n;
        self.n += n;
        while self.n >= 8 {
            self.out.push(self.acc as u8);
            self.acc >>= 8;
            self.n -= 8;
        }
    }
    /// huffman codes are sent most significant bit first
    fn code(&mut self, code: u32, n: u32) {
        let mut r = 0u32;
        for i in 0..n {
            if code & (1 << i) != 0 {
                r |= 1 << (n - 1 - i);
            }
        }
        self.bits(r, n);
    }
    fn align(&mut self) {
        if self.n > 0 {
            let k = 8 - self.n;
            self.bits((self.pad as u32) & ((1 << k) - 1), k);
        }
    }
}

const LEN_BASE: [u32; 29] = [3, 4, 5, 6, 7, 8, 9, 10, 11, 13, 15, 17, 19, 23, 27, 31, 35, 43, 51, 59, 67, 83, 99, 115, 131, 163, 195, 227, 258];
const LEN_EXTRA: [u32; 29] = [0, 0, 0, 0, 0, 0, 0, 0, 1, 1, 1, 1, 2, 2, 2, 2, 3, 3, 3, 3, 4, 4, 4, 4, 5, 5, 5, 5, 0];
const DIST_BASE: [u32; 30] = [
    1, 2, 3, 4, 5, 7, 9, 13, 17, 25, 33, 49, 65, 97, 129, 193, 257, 385, 513, 769, 1025, 1537, 2049, 3073, 4097, 6145, 8193, 12289, 16385, 24577,
];
const DIST_EXTRA: [u32; 30] = [0, 0, 0, 0, 1, 1, 2, 2, 3, 3, 4, 4, 5, 5, 6, 6, 7, 7, 8, 8, 9, 9, 10, 10, 11, 11, 12, 12, 13, 13];

fn fixed_litlen(w: &mut BitWriter, sym: u32) {
    match sym {
        0..=143 => w.code(0x30 + sym, 8),
        144..=255 => w.code(0x190 + sym - 144, 9),
        256..=279 => w.code(sym - 256, 7),
        _ => w.code(0xC0 + sym - 280, 8),
    }
}

/// raw DEFLATE stream of `data` under the given parameters
pub fn encode(data: &[u8], p: &Lz77Params) -> Vec<u8> {
    let toks = tokenize(data, p);
    let mut w = BitWriter {
        out: Vec::with_capacity(data.len() / 2 + 64),
        acc: 0,
        n: 0,
        pad: p.pad_bits,
    };
    if toks.is_empty() {
        // empty final fixed block
        w.bits(1, 1);
        w.bits(1, 2);
        fixed_litlen(&mut w, 256);
        w.align();
        return w.out;
    }
    let nblocks = (toks.len() + p.block_tokens - 1) / p.block_tokens;
    let mut pos = 0usize; // plaintext position
    for b in 0..nblocks {
        let blk = &toks[b * p.block_tokens..((b + 1) * p.block_tokens).min(toks.len())];
        let last = b + 1 == nblocks;
        let plain_len: usize = blk
            .iter()
            .map(|t| match t {
                Tok::Lit(_) => 1,
                Tok::Ref(l, _) => *l as usize,
            })
            .sum();
        let stored = p.stored_every > 0 && b % p.stored_every == p.stored_every - 1 && plain_len <= 65535;
        w.bits(last as u32, 1);
        if stored {
            w.bits(0, 2);
            w.align();
            w.bits(plain_len as u32, 16);
            w.bits(!(plain_len as u32) & 0xffff, 16);
            for &x in &data[pos..pos + plain_len] {
                w.bits(x as u32, 8);
            }
        } else {
            w.bits(1, 2);
            for t in blk {
                match *t {
                    Tok::Lit(c) => fixed_litlen(&mut w, c as u32),
                    Tok::Ref(len, dist) => {
                        let mut li = (0..29).rev().find(|&i| LEN_BASE[i] <= len).unwrap();
                        if len == 258 && p.irregular_258 {
                            li = 27; // symbol 284, base 227, 5 extra bits = 31
                        }
                        fixed_litlen(&mut w, 257 + li as u32);
                        w.bits(len - LEN_BASE[li], LEN_EXTRA[li]);
                        let di = (0..30).rev().find(|&i| DIST_BASE[i] <= dist).unwrap();
                        w.code(di as u32, 5);
                        w.bits(dist - DIST_BASE[di], DIST_EXTRA[di]);
                    }
                }
            }
            fixed_litlen(&mut w, 256);
        }
        pos += plain_len;
        if b == 0 && !last && p.empty_run > 0 {
            for k in 0..p.empty_run {
                w.bits(0, 1);
                if k % 2 == 0 {
                    // empty stored block (what Z_SYNC_FLUSH emits)
                    w.bits(0, 2);
                    w.align();
                    w.bits(0, 16);
                    w.bits(0xffff, 16);
                } else {
                    // empty fixed block
                    w.bits(1, 2);
                    fixed_litlen(&mut w, 256);
                }
            }
        }
    }
    w.align();
    w.out
}
