//! C08 — the estimator as a component that may legally answer wrongly (engine `buggify`).
//!
//! A cooperative fault point (`verif_hooks::adjust_params`), active only in simulation, replaces
//! a seeded subset of the estimated parameter fields by other values from the range the
//! estimator can emit. Producing corrections under those parameters must fail with Err or yield
//! corrections that reconstruct exactly the original stream, carry exactly the parameters that
//! were written, and leave plaintext and consumed length unchanged.

use crate::engine::*;
use crate::json::{self, J};
use crate::prng::{derive, hash_bytes, Digest, Rng};
use crate::util;
use crate::workload;
use preflate_rs::verif_hooks::{self as vh, ParamVector, PARAM_FIELDS};
use std::collections::HashSet;
use std::panic::{catch_unwind, AssertUnwindSafe};

pub struct BuggifyEngine;

const FIELD_NAMES: [&str; PARAM_FIELDS] = [
    "strategy",
    "huff_strategy",
    "zlib_compatible",
    "window_bits",
    "hash_algorithm",
    "hash_shift",
    "hash_mask",
    "max_token_count",
    "max_dist_3_matches",
    "very_far_matches",
    "matches_to_start",
    "good_length",
    "max_lazy",
    "nice_length",
    "max_chain",
    "min_len",
    "add_policy",
    "add_policy_value",
];

/// a perturbation: fields to overwrite (index, value); applied to whatever the estimator answers
#[derive(Clone, Debug, PartialEq, Default)]
pub struct Perturbation {
    /// do not enforce the estimator's implication zlib_compatible => !to_start && !very_far: the
    /// three flags are then taken as independent (a superset of what the estimator emits jointly;
    /// the library is robust there too, and the property text lists "flags" as a free dimension)
    pub independent_flags: bool,
    pub set: Vec<(usize, u32)>,
    /// replace the whole vector by the fixed no-dictionary vector of the given strategy (2 = HuffOnly, 3 = Store)
    pub no_dictionary: Option<u32>,
}

impl Perturbation {
    pub fn apply(&self, est: &ParamVector) -> ParamVector {
        let mut v = *est;
        if let Some(s) = self.no_dictionary {
            // exactly what the estimator returns for Store / HuffOnly streams
            v = [0; PARAM_FIELDS];
            v[vh::P_STRATEGY] = s;
            v[vh::P_HUFF_STRATEGY] = est[vh::P_HUFF_STRATEGY];
            v[vh::P_ZLIB_COMPATIBLE] = 1;
            v[vh::P_MAX_TOKEN_COUNT] = 16386;
            return v;
        }
        for (i, x) in self.set.iter() {
            v[*i] = *x;
        }
        // keep the vector inside the estimator's own implications
        if v[vh::P_HASH_ALGORITHM] != 1 {
            v[vh::P_HASH_SHIFT] = 0;
            v[vh::P_HASH_MASK] = 0;
        }
        if v[vh::P_MAX_LAZY] == 0 {
            v[vh::P_GOOD_LENGTH] = 0;
        }
        if v[vh::P_ZLIB_COMPATIBLE] != 0 && !self.independent_flags {
            v[vh::P_VERY_FAR_MATCHES] = 0;
            v[vh::P_MATCHES_TO_START] = 0;
        }
        if v[vh::P_ADD_POLICY] != 1 && v[vh::P_ADD_POLICY] != 2 {
            v[vh::P_ADD_POLICY_VALUE] = 0;
        }
        v
    }
    pub fn is_identity(&self) -> bool {
        self.set.is_empty() && self.no_dictionary.is_none()
    }
    pub fn to_json(&self) -> J {
        J::obj()
            .set("independent_flags", J::Bool(self.independent_flags))
            .set(
                "set",
                J::Arr(
                    self.set
                        .iter()
                        .map(|(i, v)| J::obj().set("field", J::str(FIELD_NAMES[*i])).set("index", J::u(*i as u64)).set("value", J::u(*v as u64)))
                        .collect(),
                ),
            )
            .set(
                "no_dictionary",
                match self.no_dictionary {
                    Some(s) => J::u(s as u64),
                    None => J::Null,
                },
            )
    }
    pub fn from_json(j: &J) -> Result<Perturbation, String> {
        let mut set = Vec::new();
        for e in j.get_arr("set").ok_or("set")? {
            let i = e.get_u64("index").ok_or("index")? as usize;
            if i >= PARAM_FIELDS {
                return Err("index".into());
            }
            set.push((i, e.get_u64("value").ok_or("value")? as u32));
        }
        Ok(Perturbation {
            independent_flags: j.get("independent_flags").and_then(|x| x.as_bool()).unwrap_or(false),
            set,
            no_dictionary: j.get("no_dictionary").and_then(|x| x.as_u64()).map(|x| x as u32),
        })
    }
    fn key(&self) -> u64 {
        hash_bytes(self.to_json().to_string().as_bytes())
    }
    fn field_set(&self) -> String {
        if self.no_dictionary.is_some() {
            return "no_dictionary".into();
        }
        let mut names: Vec<&str> = self.set.iter().map(|(i, _)| FIELD_NAMES[*i]).collect();
        names.sort();
        names.dedup();
        names.join("+")
    }
}

/// hash algorithms the estimator's candidate lists contain: (id, shift, mask)
const HASHES: [(u32, u32, u32); 9] = [
    (1, 5, 0x7fff),
    (1, 4, 2047),
    (2, 0, 0),
    (3, 0, 0),
    (4, 0, 0),
    (5, 0, 0),
    (6, 0, 0),
    (7, 0, 0),
    (1, 5, 0x7fff),
];
/// largest add-policy limit the estimator can emit
const MAX_ADD_LIMIT: u32 = 255;
const LAZY_ROWS: [(u32, u32); 6] = [(0, 0), (4, 4), (8, 16), (8, 32), (32, 128), (32, 258)];
const NICE: [u32; 5] = [8, 16, 32, 128, 258];

pub fn random_perturbation(rng: &mut Rng, thorough: bool) -> Perturbation {
    if rng.chance(1, 24) {
        return Perturbation {
            independent_flags: false,
            set: Vec::new(),
            no_dictionary: Some(*rng.pick(&[2u32, 3])),
        };
    }
    let nfields = match rng.below(10) {
        0..=3 => 1,
        4..=6 => 2,
        7..=8 => 3,
        _ => rng.range(4, 8) as usize,
    };
    let mut set: Vec<(usize, u32)> = Vec::new();
    let mut independent_flags = false;
    for _ in 0..nfields {
        match rng.below(12) {
            0 => set.push((vh::P_WINDOW_BITS, rng.range(9, 15) as u32)),
            1 => set.push((vh::P_MAX_TOKEN_COUNT, (1u32 << (6 + rng.range(1, 9))) - 1)),
            2 => set.push((vh::P_STRATEGY, rng.below(2) as u32)), // Default / RleOnly (with a dictionary)
            3 | 4 => {
                let (h, s, m) = *rng.pick(&HASHES);
                set.push((vh::P_HASH_ALGORITHM, h));
                set.push((vh::P_HASH_SHIFT, s));
                set.push((vh::P_HASH_MASK, m));
            }
            5 | 6 => {
                let kind = rng.below(5) as u32;
                set.push((vh::P_ADD_POLICY, kind));
                // the estimator emits limits 0..=MAX_ADD_LIMIT (add_policy_estimator.rs clamps to
                // what the 8-bit header field can carry)
                let n = match rng.below(8) {
                    0 => rng.range(MAX_ADD_LIMIT as u64 - 3, MAX_ADD_LIMIT as u64) as u32,
                    1 => 0,
                    2 => *rng.pick(&[3u32, 4, 5, 6]),
                    _ => rng.range(1, MAX_ADD_LIMIT as u64) as u32,
                };
                set.push((vh::P_ADD_POLICY_VALUE, n));
            }
            7 => {
                let (g, l) = if thorough && rng.chance(1, 3) {
                    (rng.range(1, 258) as u32, rng.range(1, 258) as u32)
                } else {
                    *rng.pick(&LAZY_ROWS)
                };
                set.push((vh::P_GOOD_LENGTH, g));
                set.push((vh::P_MAX_LAZY, l));
            }
            8 => set.push((vh::P_NICE_LENGTH, *rng.pick(&NICE))),
            // every numeric field is drawn with a bias to the ends of its emit-able range
            9 => set.push((
                vh::P_MAX_CHAIN,
                match rng.below(6) {
                    0 => rng.range(1, 4) as u32,
                    1 => rng.range(1, 64) as u32,
                    2 => *rng.pick(&[4096u32, 4095, 1]),
                    _ => rng.range(1, 4096) as u32,
                },
            )),
            10 => set.push((
                vh::P_MAX_DIST_3_MATCHES,
                match rng.below(6) {
                    0 => 0,
                    1 => rng.range(0, 64) as u32,
                    2 => 4096,
                    3 => *rng.pick(&[32768u32, 32767, 32506, 16384, 1]),
                    _ => rng.range(0, 32768) as u32,
                },
            )),
            _ => {
                // flags (the estimator's implication zlib_compatible => !to_start && !very_far is enforced in apply)
                let z = rng.below(2) as u32;
                independent_flags = rng.chance(1, 3);
                set.push((vh::P_ZLIB_COMPATIBLE, z));
                set.push((vh::P_VERY_FAR_MATCHES, rng.below(2) as u32));
                set.push((vh::P_MATCHES_TO_START, rng.below(2) as u32));
                if rng.chance(1, 2) {
                    set.push((vh::P_MIN_LEN, *rng.pick(&[3u32, 4])));
                }
            }
        }
    }
    Perturbation {
        independent_flags,
        set,
        no_dictionary: None,
    }
}

#[derive(Clone, Debug, PartialEq)]
pub enum Res {
    Ok {
        plain: Vec<u8>,
        corrections: Vec<u8>,
        compressed_size: usize,
        written: ParamVector,
    },
    Err(i32),
    Panic(String),
}

pub struct CallRecord {
    pub res: Res,
    /// what the estimator answered (None if the call failed before estimation)
    pub estimated: Option<ParamVector>,
    /// what the adjuster answered
    pub injected: Option<ParamVector>,
}

pub fn call_with(stream: &[u8], verify: bool, p: &Perturbation) -> CallRecord {
    use std::cell::RefCell;
    use std::rc::Rc;
    let seen: Rc<RefCell<(Option<ParamVector>, Option<ParamVector>)>> = Rc::new(RefCell::new((None, None)));
    let seen2 = seen.clone();
    let p2 = p.clone();
    let prev = vh::set_param_adjuster(Some(Box::new(move |est: &ParamVector| {
        let v = p2.apply(est);
        let mut s = seen2.borrow_mut();
        s.0 = Some(*est);
        s.1 = Some(v);
        if p2.is_identity() {
            None
        } else {
            Some(v)
        }
    })));
    let r = catch_unwind(AssertUnwindSafe(|| preflate_rs::decompress_deflate_stream(stream, verify, 0)));
    vh::set_param_adjuster(prev);
    let res = match r {
        Ok(Ok(r)) => Res::Ok {
            written: vh::params_of(&r),
            plain: r.plain_text,
            corrections: r.prediction_corrections,
            compressed_size: r.compressed_size,
        },
        Ok(Err(e)) => Res::Err(e.exit_code().as_integer_error_code()),
        Err(_) => Res::Panic(util::take_last_panic()),
    };
    let s = seen.borrow();
    CallRecord {
        res,
        estimated: s.0,
        injected: s.1,
    }
}

pub struct RunOutcome {
    pub verdict: Option<(String, String)>,
    pub class: &'static str,
    pub corrections_len: usize,
    pub digest: u64,
    pub injected: Option<ParamVector>,
    pub estimated: Option<ParamVector>,
}

/// one judged call on a stream
pub fn execute(stream: &[u8], verify: bool, p: &Perturbation, baseline: Option<&Res>) -> RunOutcome {
    let rec = call_with(stream, verify, p);
    let mut d = Digest::default();
    d.bytes(stream);
    d.u64(verify as u64);
    d.u64(p.key());
    let mut verdict = None;
    let mut clen = 0;
    let class;
    match &rec.res {
        Res::Err(c) => {
            class = "err";
            d.u64(0x100 + *c as u64);
        }
        Res::Panic(m) => {
            class = "panic";
            d.u64(0xdead);
            verdict = Some((
                "panic".to_string(),
                format!(
                    "decompress_deflate_stream panicked under {} parameters: {}",
                    if p.is_identity() { "the estimator's own" } else { "perturbed (emit-able)" },
                    m
                ),
            ));
        }
        Res::Ok {
            plain,
            corrections,
            compressed_size,
            written,
        } => {
            class = "ok";
            clen = corrections.len();
            d.bytes(plain);
            d.bytes(corrections);
            d.u64(*compressed_size as u64);
            // 1. reconstruction
            // reconstruction happens somewhere else than analysis (stored now, read later): run it on
            // a fresh thread, whose thread-local state has no history
            let rec2 = std::thread::scope(|sc| {
                sc.spawn(|| {
                    let r = catch_unwind(AssertUnwindSafe(|| preflate_rs::recompress_deflate_stream(plain, corrections)));
                    if r.is_err() {
                        // carry the panic text over to the judging thread
                        let msg = util::take_last_panic();
                        return Err(msg);
                    }
                    Ok(r.unwrap())
                })
                .join()
                .unwrap_or(Err("reconstruction thread died".to_string()))
            });
            match rec2 {
                Ok(Ok(b)) => {
                    if *compressed_size > stream.len() || b[..] != stream[..*compressed_size] {
                        verdict = Some((
                            "reconstructed_differently".to_string(),
                            format!(
                                "accepted with Ok but recompress_deflate_stream gives {} bytes that differ from the original {} bytes",
                                b.len(),
                                compressed_size
                            ),
                        ));
                    }
                }
                Ok(Err(e)) => {
                    verdict = Some((
                        "reconstruction_failed".to_string(),
                        format!("accepted with Ok but recompress_deflate_stream fails with exit code {}", e.exit_code().as_integer_error_code()),
                    ));
                }
                Err(msg) => {
                    verdict = Some((
                        "reconstruction_panicked".to_string(),
                        format!("accepted with Ok but recompress_deflate_stream panics: {}", msg),
                    ));
                }
            }
            // 2. the vector as re-read equals the vector as written (and as injected)
            if verdict.is_none() {
                match catch_unwind(AssertUnwindSafe(|| vh::read_params(corrections))) {
                    Ok(Ok(reread)) => {
                        if reread != *written {
                            let diff: Vec<String> = (0..PARAM_FIELDS)
                                .filter(|&i| reread[i] != written[i])
                                .map(|i| format!("{}: written {} re-read {}", FIELD_NAMES[i], written[i], reread[i]))
                                .collect();
                            verdict = Some(("params_reread_differ".to_string(), format!("parameters read back from the corrections differ from the ones written: {}", diff.join(", "))));
                        }
                    }
                    _ => {
                        let _ = util::take_last_panic();
                        verdict = Some(("params_unreadable".to_string(), "parameter header of the produced corrections cannot be read back".to_string()));
                    }
                }
            }
            if verdict.is_none() {
                if let Some(inj) = &rec.injected {
                    if !p.is_identity() && vh::vector_to_params(inj).is_some() && inj != written {
                        verdict = Some(("injected_not_used".to_string(), "harness: the injected vector is not the one reported as written".to_string()));
                    }
                }
            }
            // 3. plaintext and consumed length are independent of the estimate
            if verdict.is_none() {
                if let Some(Res::Ok {
                    plain: p0,
                    compressed_size: s0,
                    ..
                }) = baseline
                {
                    if p0 != plain || s0 != compressed_size {
                        verdict = Some((
                            "estimate_changed_result".to_string(),
                            format!(
                                "plaintext/consumed length depend on the parameters: {} bytes / {} consumed versus {} / {} under the estimator's own parameters",
                                plain.len(),
                                compressed_size,
                                p0.len(),
                                s0
                            ),
                        ));
                    }
                }
            }
        }
    }
    RunOutcome {
        verdict,
        class,
        corrections_len: clen,
        digest: d.0,
        injected: rec.injected,
        estimated: rec.estimated,
    }
}

/// container level: the perturbation is active for every probe the scanner makes
pub fn execute_container(file: &[u8], p: &Perturbation) -> (Option<(String, String)>, u64) {
    let p2 = p.clone();
    let prev = vh::set_param_adjuster(Some(Box::new(move |est: &ParamVector| if p2.is_identity() { None } else { Some(p2.apply(est)) })));
    let r = catch_unwind(AssertUnwindSafe(|| preflate_rs::expand_zlib_chunks(file, 0)));
    vh::set_param_adjuster(prev);
    let mut d = Digest::default();
    d.bytes(file);
    d.u64(p.key());
    let verdict = match r {
        Err(_) => Some(("container_panic".to_string(), format!("expand_zlib_chunks panicked under perturbed parameters: {}", util::take_last_panic()))),
        Ok(Err(_)) => None,
        Ok(Ok(e)) => {
            d.bytes(&e);
            let mut out = Vec::new();
            let rr = catch_unwind(AssertUnwindSafe(|| preflate_rs::recreated_zlib_chunks(&mut std::io::Cursor::new(&e[..]), &mut out)));
            match rr {
                Ok(Ok(())) if out == file => None,
                Ok(Ok(())) => Some(("container_roundtrip_differs".to_string(), format!("container produced under perturbed parameters recreates {} bytes that differ from the {} byte file", out.len(), file.len()))),
                Ok(Err(err)) => Some((
                    "container_roundtrip_failed".to_string(),
                    format!("container produced under perturbed parameters is rejected on recreation (exit code {})", err.exit_code().as_integer_error_code()),
                )),
                Err(_) => Some(("container_recreate_panic".to_string(), format!("recreation panics on a container produced under perturbed parameters: {}", util::take_last_panic()))),
            }
        }
    };
    (verdict, d.0)
}

fn vec_json(v: &ParamVector) -> J {
    J::Obj(FIELD_NAMES.iter().zip(v.iter()).map(|(n, x)| (n.to_string(), J::u(*x as u64))).collect())
}

fn replay_doc(layer: &str, data: &[u8], verify: bool, p: &Perturbation, desc: &str) -> J {
    J::obj()
        .set("engine", J::str("buggify"))
        .set("workload_hash", J::Str(format!("{:016x}", hash_bytes(data))))
        .set("plan_key", J::Str(format!("{:016x}", p.key() ^ verify as u64)))
        .set("layer", J::str(layer))
        .set("object_description", J::str(desc))
        .set("object_hex", J::Str(json::hex(data)))
        .set("verify", J::Bool(verify))
        .set("perturbation", p.to_json())
}

fn gen_streams(master: u64, job: u64, tier: Tier) -> Vec<(Vec<u8>, String)> {
    let mut rng = Rng::new(derive(master ^ 0xb066, job));
    let n = match tier {
        Tier::Quick => 4,
        Tier::Thorough => 4,
    };
    let mut v = Vec::new();
    for _ in 0..n {
        let (c, _p, raw) = if rng.chance(1, 5) {
            workload::gen_stream(&mut rng, 30, 400)
        } else {
            workload::gen_stream(&mut rng, 400, if tier == Tier::Quick { 6000 } else { 20000 })
        };
        v.push((raw, c.describe()));
    }
    if tier == Tier::Thorough && job % 400 == 399 {
        let (c, _p, raw) = workload::gen_giant_block_stream(&mut rng);
        v.push((raw, c.describe()));
    }
    if job % 32 == 7 {
        // far matches around the offsets where the 16-bit hash-chain positions are slid down
        let (c, _p, raw) = workload::gen_reshift_band_stream(&mut rng);
        v.push((raw, format!("reshift-band text, {}", c.describe())));
    }
    if job % 64 == 23 {
        let (c, _p, raw) = workload::gen_big_dynamic_block_stream(&mut rng);
        v.push((raw, format!("one dynamic block of > 65535 literals, {}", c.describe())));
    }
    if job % 4 == 2 {
        let (c, _p, raw) = workload::gen_tail_match_stream(&mut rng);
        v.push((raw, format!("long match at the end of input, {}", c.describe())));
    }
    if job % 8 == 1 {
        let (c, _p, raw) = workload::gen_empty_plaintext_stream(&mut rng);
        v.push((raw, format!("empty plaintext, {}", c.describe())));
    }
    if job % 64 == 5 {
        // a non-final block of 65536 + m tokens (token counts that differ only above bit 16)
        let (c, _p, raw) = workload::gen_wraparound_block_stream(&mut rng);
        v.push((raw, c.describe()));
    }
    v
}

impl Engine for BuggifyEngine {
    fn info(&self) -> EngineInfo {
        EngineInfo {
            property: "C08",
            name: "simstore buggify",
            level: "exploration",
            rule: "per stream (seeded plaintext x zlib/zlib-ng/libdeflate/miniz_oxide): the estimator's own vector plus seeded perturbations of 1-8 fields drawn from the range the estimator can emit (window 9-15; block size 2^(6+m)-1; Default/RleOnly or the fixed no-dictionary vector; the 8 candidate hash algorithms; all 5 add policies with limits 0-255; Greedy or the lazy rows of the zlib tables; nice length 8/16/32/128/258; chain depth 1-4096; max 3-byte-match distance 0-32768; flags under the estimator's own implication), each with verify on and off; a fraction at container level with the perturbation active for every probe of the scanner. Distinct = distinct (stream, perturbation, verify); non-trivial = at least one field differs from the estimate.",
            real_components: &["preflate-rs working tree: parser, real estimator, predictor, codec, reconstruction", "compressors zlib, zlib-ng, libdeflate, miniz_oxide"],
            stub_components: &["the estimator's answer: real estimate, then a thread-local adjuster (guarded hook adjust_params) overwrites a seeded subset of fields"],
            assumptions: &[
                "vectors are drawn only from the emit-able range read off the estimator's code; arbitrary good/max_lazy pairs only in the thorough tier",
                "the size of the corrections is recorded, never judged",
                "release profile as shipped",
            ],
            state_measure: "distinct (perturbed field set, outcome class) tuples: see abstract_states; distribution of correction size ratio in other_counters",
        }
    }

    fn jobs(&self, tier: Tier) -> u64 {
        match tier {
            Tier::Quick => 640,
            Tier::Thorough => 6000,
        }
    }

    fn expected_probes(&self, _tier: Tier) -> Vec<&'static str> {
        vec![
            "probe.window_smaller_than_a_distance",
            "probe.four_byte_hash_on_three_byte_matches",
            "probe.add_limit_at_upper_end",
            "probe.max_chain_below_4_lazy_zlib_compatible",
            "probe.perturbed_ok_and_exact",
            "probe.container_level_run",
        ]
    }

    /// debugging aid: simcheck aux C08 <replay.json> prints the container layouts
    fn aux(&self, args: &[String]) -> i32 {
        util::install_quiet_panic_hook();
        let Some(path) = args.first() else { return 2 };
        let Ok(text) = std::fs::read_to_string(path) else { return 2 };
        let Ok(doc) = json::parse(&text) else { return 2 };
        let data = json::unhex(doc.get_str("object_hex").unwrap_or("")).unwrap_or_default();
        let p = Perturbation::from_json(doc.get("perturbation").unwrap_or(&J::Null)).unwrap_or_default();
        for (name, pert) in [("unperturbed", Perturbation::default()), ("perturbed", p)] {
            let p2 = pert.clone();
            let prev = vh::set_param_adjuster(Some(Box::new(move |est: &ParamVector| if p2.is_identity() { None } else { Some(p2.apply(est)) })));
            let r = catch_unwind(AssertUnwindSafe(|| preflate_rs::expand_zlib_chunks(&data, 0)));
            vh::set_param_adjuster(prev);
            match r {
                Ok(Ok(e)) => {
                    let l = crate::simio::parse_layout(&e);
                    eprintln!("{}: container {} bytes, chunks lit/deflate/png = {:?}", name, e.len(), l.chunk_kinds);
                    for f in l.fields.iter() {
                        if matches!(f.1, crate::simio::Phase::Tag) {
                            eprintln!("   chunk kind {} at {}", f.2, f.0);
                        }
                    }
                }
                other => eprintln!("{}: {:?}", name, other.map(|x| x.map(|v| v.len()).map_err(|e| e.to_string()))),
            }
        }
        0
    }

    fn run_job(&self, ctx: &JobCtx) -> JobResult {
        let mut res = JobResult {
            job: ctx.job,
            ..Default::default()
        };
        let thorough = ctx.tier == Tier::Thorough;
        let mut digest = Digest::default();
        let mut rng = Rng::new(derive(ctx.master_seed ^ 0xb0662, ctx.job));
        let mut seen: HashSet<u64> = HashSet::new();
        let nvec = if thorough { 160 } else { 60 };
        for (stream, desc) in gen_streams(ctx.master_seed, ctx.job, ctx.tier) {
            if res.violations.len() >= 3 {
                break;
            }
            let sh = hash_bytes(&stream);
            // the estimator's own answer (always one of the runs)
            let ident = Perturbation::default();
            announce_run(ctx, || replay_doc("stream", &stream, true, &ident, &desc));
            let base_rec = call_with(&stream, true, &ident);
            let baseline = base_rec.res.clone();
            let est = base_rec.estimated;
            res.bump(match &baseline {
                Res::Ok { .. } => "unperturbed.ok",
                Res::Err(_) => "unperturbed.err",
                Res::Panic(_) => "unperturbed.panic",
            });
            let base_len = match &baseline {
                Res::Ok { corrections, .. } => corrections.len(),
                _ => 0,
            };
            let mut plans: Vec<(bool, Perturbation)> = vec![(true, ident.clone()), (false, ident.clone())];
            for _ in 0..nvec {
                let p = random_perturbation(&mut rng, thorough);
                plans.push((rng.chance(1, 2), p));
            }
            for (verify, p) in plans.iter() {
                if res.violations.len() >= 3 {
                    break;
                }
                announce_run(ctx, || replay_doc("stream", &stream, *verify, p, &desc));
                let out = execute(&stream, *verify, p, Some(&baseline));
                res.evaluations += 1;
                res.steps += 2;
                digest.u64(out.digest);
                let changed = match (&out.injected, &out.estimated) {
                    (Some(a), Some(b)) => a != b,
                    _ => false,
                };
                if changed && seen.insert(sh ^ p.key().rotate_left(1) ^ *verify as u64) {
                    res.distinct += 1;
                }
                if changed {
                    res.bump(&format!("fault.estimate_overridden.{}", if p.no_dictionary.is_some() { "no_dictionary_vector" } else { "fields" }));
                    for (i, _) in p.set.iter() {
                        res.bump(&format!("fault.field.{}", FIELD_NAMES[*i]));
                    }
                    res.bump(&format!("st.{}.{}", p.field_set(), out.class));
                } else if !p.is_identity() {
                    res.bump("perturbation_equal_to_estimate_or_not_reached");
                }
                res.bump(&format!("outcome.{}", out.class));
                if let (Some(inj), Some(e0)) = (&out.injected, &est) {
                    if changed {
                        if inj[vh::P_WINDOW_BITS] < e0[vh::P_WINDOW_BITS] {
                            res.bump("probe.window_smaller_than_a_distance");
                        }
                        if matches!(inj[vh::P_HASH_ALGORITHM], 4 | 5 | 7) && e0[vh::P_MIN_LEN] == 3 {
                            res.bump("probe.four_byte_hash_on_three_byte_matches");
                        }
                        if (inj[vh::P_ADD_POLICY] == 1 || inj[vh::P_ADD_POLICY] == 2) && inj[vh::P_ADD_POLICY_VALUE] >= MAX_ADD_LIMIT - 3 {
                            res.bump("probe.add_limit_at_upper_end");
                        }
                        if inj[vh::P_MAX_CHAIN] < 4 && inj[vh::P_MAX_LAZY] > 0 && inj[vh::P_ZLIB_COMPATIBLE] != 0 {
                            res.bump("probe.max_chain_below_4_lazy_zlib_compatible");
                        }
                        if out.class == "ok" && out.verdict.is_none() {
                            res.bump("probe.perturbed_ok_and_exact");
                            if base_len > 0 {
                                let ratio = out.corrections_len * 100 / base_len;
                                res.bump(match ratio {
                                    0..=100 => "corrections_size.le_100pct_of_estimated",
                                    101..=200 => "corrections_size.le_200pct",
                                    201..=1000 => "corrections_size.le_1000pct",
                                    _ => "corrections_size.gt_1000pct",
                                });
                            }
                        }
                    }
                }
                if res.samples.is_empty() && changed && out.class == "ok" {
                    res.samples.push(
                        J::obj()
                            .set("stream", J::Str(format!("{} ({} bytes, hash {:016x})", desc, stream.len(), sh)))
                            .set("verify", J::Bool(*verify))
                            .set("perturbation", p.to_json())
                            .set("estimated", est.as_ref().map(vec_json).unwrap_or(J::Null))
                            .set("injected", out.injected.as_ref().map(vec_json).unwrap_or(J::Null))
                            .set("outcome", J::str("Ok, reconstructs exactly, parameters re-read equal"))
                            .set("corrections_len", J::u(out.corrections_len as u64))
                            .set("corrections_len_under_own_estimate", J::u(base_len as u64)),
                    );
                }
                if let Some((clause, what)) = out.verdict {
                    let site = match clause.as_str() {
                        "panic" | "reconstruction_panicked" => util::panic_site(&what),
                        _ => p.field_set(),
                    };
                    let mut doc = replay_doc("stream", &stream, *verify, p, &desc);
                    doc.put("digest", J::Str(format!("{:016x}", out.digest)));
                    doc.put("estimated", est.as_ref().map(vec_json).unwrap_or(J::Null));
                    doc.put("injected", out.injected.as_ref().map(vec_json).unwrap_or(J::Null));
                    res.violations.push(Violation {
                        clause: clause.clone(),
                        key: format!("{}:{}:{:016x}:{:016x}", clause, site, sh, p.key()),
                        what: format!("{} [{}; perturbed: {}]", what, desc, if p.is_identity() { "nothing".to_string() } else { p.field_set() }),
                        replay: doc,
                    });
                }
            }
        }
        // container level
        let nfiles = 1;
        let mut frng = Rng::new(derive(ctx.master_seed ^ 0xb0663, ctx.job));
        for _ in 0..nfiles {
            if !res.violations.is_empty() {
                break;
            }
            let wl = workload::gen_file(&mut frng, workload::SMALL);
            let desc = wl.members.iter().map(|m| format!("{} in {}", m.compressor.describe(), m.wrapper.describe())).collect::<Vec<_>>().join("; ");
            // precondition: round trip without perturbation (C01 territory otherwise)
            let (v0, _) = execute_container(&wl.file, &Perturbation::default());
            if v0.is_some() {
                res.bump("container_baseline_rejected");
                continue;
            }
            for _ in 0..(if thorough { 12 } else { 6 }) {
                let p = random_perturbation(&mut frng, thorough);
                announce_run(ctx, || replay_doc("container", &wl.file, true, &p, &desc));
                let (v, dg) = execute_container(&wl.file, &p);
                res.evaluations += 1;
                res.steps += 2;
                digest.u64(dg);
                res.bump("probe.container_level_run");
                if seen.insert(hash_bytes(&wl.file) ^ p.key()) {
                    res.distinct += 1;
                }
                if let Some((clause, what)) = v {
                    let site = if clause.contains("panic") { util::panic_site(&what) } else { p.field_set() };
                    res.violations.push(Violation {
                        clause: clause.clone(),
                        key: format!("{}:{}:{:016x}:{:016x}", clause, site, hash_bytes(&wl.file), p.key()),
                        what: format!("{} [{}]", what, desc),
                        replay: replay_doc("container", &wl.file, true, &p, &desc),
                    });
                    break;
                }
            }
        }
        res.digest = digest.0;
        res
    }

    fn replay(&self, doc: &J) -> ReplayOutcome {
        let bad = |m: String| ReplayOutcome {
            clause: None,
            digest: 0,
            detail: m,
        };
        let data = match doc.get_str("object_hex").ok_or("object_hex".to_string()).and_then(json::unhex) {
            Ok(d) => d,
            Err(e) => return bad(e),
        };
        let p = match doc.get("perturbation").ok_or("perturbation".to_string()).and_then(Perturbation::from_json) {
            Ok(p) => p,
            Err(e) => return bad(e),
        };
        let verify = doc.get("verify").and_then(|v| v.as_bool()).unwrap_or(true);
        if doc.get_str("layer") == Some("container") {
            let (v, dg) = execute_container(&data, &p);
            return match v {
                Some((clause, what)) => ReplayOutcome {
                    clause: Some(clause),
                    digest: dg,
                    detail: what,
                },
                None => ReplayOutcome {
                    clause: None,
                    digest: dg,
                    detail: "container round-trips under the perturbation".into(),
                },
            };
        }
        let base = call_with(&data, true, &Perturbation::default());
        let out = execute(&data, verify, &p, Some(&base.res));
        match out.verdict {
            Some((clause, what)) => ReplayOutcome {
                clause: Some(clause),
                digest: out.digest,
                detail: what,
            },
            None => ReplayOutcome {
                clause: None,
                digest: out.digest,
                detail: format!("oracle satisfied (outcome class {})", out.class),
            },
        }
    }
}
