//! Common types shared by all engines and the supervisor.

use crate::json::J;
use std::collections::BTreeMap;

#[derive(Clone, Copy, Debug, PartialEq, Eq)]
pub enum Tier {
    Quick,
    Thorough,
}

impl Tier {
    pub fn name(&self) -> &'static str {
        match self {
            Tier::Quick => "quick",
            Tier::Thorough => "thorough",
        }
    }
    pub fn parse(s: &str) -> Option<Tier> {
        match s {
            "quick" => Some(Tier::Quick),
            "thorough" => Some(Tier::Thorough),
            _ => None,
        }
    }
}

#[derive(Clone, Debug)]
pub struct JobCtx {
    pub property: String,
    pub tier: Tier,
    pub master_seed: u64,
    pub job: u64,
    /// when set, the worker announces every run before executing it (crash attribution)
    pub trace: bool,
}

#[derive(Clone, Debug)]
pub struct Violation {
    /// oracle clause that failed
    pub clause: String,
    /// stable key of the specific failing case (matched against known_findings.json)
    pub key: String,
    /// human readable description
    pub what: String,
    /// complete replay document (property, clause, seeds, explicit plan, digest)
    pub replay: J,
}

impl Violation {
    pub fn to_json(&self) -> J {
        J::obj()
            .set("clause", J::str(&self.clause))
            .set("key", J::str(&self.key))
            .set("what", J::str(&self.what))
            .set("replay", self.replay.clone())
    }
    pub fn from_json(j: &J) -> Option<Violation> {
        Some(Violation {
            clause: j.get_str("clause")?.to_string(),
            key: j.get_str("key")?.to_string(),
            what: j.get_str("what")?.to_string(),
            replay: j.get("replay")?.clone(),
        })
    }
}

#[derive(Clone, Debug, Default)]
pub struct JobResult {
    pub job: u64,
    /// executions (simulated runs) performed
    pub evaluations: u64,
    /// steps (I/O calls, hook points, scheduler decisions) executed
    pub steps: u64,
    /// distinct non-trivial cases within this job (keys include the workload hash, so jobs are disjoint)
    pub distinct: u64,
    /// named counters: fault kinds fired, reach probes, outcome classes, skipped workloads ...
    pub counters: BTreeMap<String, u64>,
    /// fold of all run digests of the job (determinism check)
    pub digest: u64,
    pub samples: Vec<J>,
    pub violations: Vec<Violation>,
    /// free-form notes that go to evidence (e.g. FORMAT-VERSION-CHANGED)
    pub notes: Vec<String>,
}

impl JobResult {
    pub fn count(&mut self, name: &str, n: u64) {
        if n > 0 {
            *self.counters.entry(name.to_string()).or_insert(0) += n;
        }
    }
    pub fn bump(&mut self, name: &str) {
        self.count(name, 1);
    }

    pub fn to_json(&self) -> J {
        J::obj()
            .set("job", J::u(self.job))
            .set("evaluations", J::u(self.evaluations))
            .set("steps", J::u(self.steps))
            .set("distinct", J::u(self.distinct))
            .set(
                "counters",
                J::Obj(self.counters.iter().map(|(k, v)| (k.clone(), J::u(*v))).collect()),
            )
            .set("digest", J::Str(format!("{:016x}", self.digest)))
            .set("samples", J::Arr(self.samples.clone()))
            .set("violations", J::Arr(self.violations.iter().map(|v| v.to_json()).collect()))
            .set("notes", J::Arr(self.notes.iter().map(|s| J::str(s)).collect()))
    }

    pub fn from_json(j: &J) -> Option<JobResult> {
        let mut counters = BTreeMap::new();
        if let Some(J::Obj(o)) = j.get("counters") {
            for (k, v) in o {
                counters.insert(k.clone(), v.as_u64()?);
            }
        }
        Some(JobResult {
            job: j.get_u64("job")?,
            evaluations: j.get_u64("evaluations")?,
            steps: j.get_u64("steps")?,
            distinct: j.get_u64("distinct")?,
            counters,
            digest: u64::from_str_radix(j.get_str("digest")?, 16).ok()?,
            samples: j.get_arr("samples")?.to_vec(),
            violations: j.get_arr("violations")?.iter().filter_map(Violation::from_json).collect(),
            notes: j
                .get_arr("notes")?
                .iter()
                .filter_map(|s| s.as_str().map(|x| x.to_string()))
                .collect(),
        })
    }
}

/// outcome of replaying one replay document
#[derive(Clone, Debug)]
pub struct ReplayOutcome {
    /// Some(clause) if a violation was reproduced
    pub clause: Option<String>,
    pub digest: u64,
    pub detail: String,
}

pub struct ExtraCtx {
    pub root: std::path::PathBuf,
    pub master_seed: u64,
    pub workers: usize,
}

pub struct ExtraResult {
    pub name: String,
    pub evidence: J,
    pub evaluations: u64,
    pub violations: Vec<Violation>,
    pub harness_errors: Vec<String>,
}

/// Static description of an engine for evidence and planning.
pub struct EngineInfo {
    pub property: &'static str,
    pub name: &'static str,
    pub level: &'static str,
    pub rule: &'static str,
    pub real_components: &'static [&'static str],
    pub stub_components: &'static [&'static str],
    pub assumptions: &'static [&'static str],
    pub state_measure: &'static str,
}

pub trait Engine: Sync {
    fn info(&self) -> EngineInfo;
    /// number of jobs for the tier
    fn jobs(&self, tier: Tier) -> u64;
    /// wall-clock seconds after which a job is considered stalled (watchdog, supervisor side)
    fn job_timeout_s(&self, tier: Tier) -> u64 {
        match tier {
            Tier::Quick => 300,
            Tier::Thorough => 1200,
        }
    }
    /// stdout of worker processes: "/dev/null" normally
    fn worker_stdout(&self) -> &'static str {
        "/dev/null"
    }
    /// executed inside a worker process
    fn run_job(&self, ctx: &JobCtx) -> JobResult;
    /// executed in a fresh process: re-execute the explicit plan of a replay document
    fn replay(&self, doc: &J) -> ReplayOutcome;
    /// additional arm that runs only in the thorough tier (e.g. Miri for C14)
    fn thorough_extra(&self, _ctx: &ExtraCtx) -> Option<ExtraResult> {
        None
    }
    /// engine-specific helper process (simcheck aux <ID> args...)
    fn aux(&self, _args: &[String]) -> i32 {
        2
    }
    /// reach probes that should be non-zero (warn when zero)
    fn expected_probes(&self, _tier: Tier) -> Vec<&'static str> {
        Vec::new()
    }
}

/// trace-mode announcement of the run that is about to execute (crash / stall attribution)
pub fn announce_run(ctx: &JobCtx, replay_doc: impl FnOnce() -> J) {
    if ctx.trace {
        eprintln!("@@ RUN {}", replay_doc().to_string());
    }
}
