#![allow(warnings)]
/*---------------------------------------------------------------------------------------------
 *  Copyright (c) Microsoft Corporation. All rights reserved.
 *  Licensed under the Apache License, Version 2.0. See LICENSE.txt in the project root for license information.
 *  This software incorporates material from third parties. See NOTICE.txt for details.
 *--------------------------------------------------------------------------------------------*/

mod add_policy_estimator;
mod bit_helper;
mod bit_reader;
mod bit_writer;
mod cabac_codec;
mod complevel_estimator;
mod deflate_reader;
mod deflate_writer;
mod depth_estimator;
mod hash_algorithm;
mod hash_chain;
mod hash_chain_holder;
mod huffman_calc;
mod huffman_encoding;
mod huffman_helper;
mod idat_parse;
mod preflate_constants;
mod preflate_container;
mod preflate_error;
mod preflate_input;
mod preflate_parameter_estimator;
mod preflate_parse_config;
mod preflate_stream_info;
mod preflate_token;
mod process;
mod scan_deflate;
mod statistical_codec;
mod token_predictor;
mod tree_predictor;

pub use preflate_container::{
    compress_zstd, decompress_deflate_stream, decompress_zstd, expand_zlib_chunks,
    recompress_deflate_stream, recreated_zlib_chunks,
};
pub use preflate_error::PreflateError;


/// format version constants of the reference build (what the working tree's
/// verif_hooks::VERIF_WRAPPER_VERSION / VERIF_FILE_VERSION are compared against)
pub const REF_WRAPPER_VERSION: u8 = 1;
pub const REF_FILE_VERSION: u16 = 1;
