/*---------------------------------------------------------------------------------------------
 *  Copyright (c) Microsoft Corporation. All rights reserved.
 *  Licensed under the Apache License, Version 2.0. See LICENSE.txt in the project root for license information.
 *  This software incorporates material from third parties. See NOTICE.txt for details.
 *--------------------------------------------------------------------------------------------*/

use crate::{
    cabac_codec::{decode_difference, encode_difference},
    huffman_calc::{calc_bit_lengths, HufftreeBitCalc},
    huffman_encoding::{HuffmanOriginalEncoding, TreeCodeType},
    preflate_constants::{CODETREE_CODE_COUNT, NONLEN_CODE_COUNT, TREE_CODE_ORDER_TABLE},
    preflate_error::{err_exit_code, ExitCode, Result},
    preflate_token::TokenFrequency,
    statistical_codec::{
        CodecCorrection, CodecMisprediction, PredictionDecoder, PredictionEncoder,
    },
};

pub fn predict_tree_for_block<D: PredictionEncoder>(
    huffman_encoding: &HuffmanOriginalEncoding,
    freq: &TokenFrequency,
    encoder: &mut D,
    huffcalc: HufftreeBitCalc,
) -> Result<()> {
    encoder.encode_verify_state("tree", 0);

    // bit_lengths is a vector of huffman code sizes for literals followed by length codes
    // first predict the size of the literal tree
    let mut bit_lengths = calc_bit_lengths(huffcalc, &freq.literal_codes, 15);

    /*
    let (ao, bo) = huffman_encoding.get_literal_distance_lengths();
     bit_lengths.iter().zip(ao.iter()).enumerate().for_each(|(i, (&a, &b))| {
         assert_eq!(a, b, "i{i} bit_lengths: {:?} ao: {:?}", bit_lengths, ao);
     });
     assert_eq!(bit_lengths[..], ao[..]);
    */

    encoder.encode_misprediction(
        CodecMisprediction::LiteralCountMisprediction,
        bit_lengths.len() != huffman_encoding.num_literals,
    );

    // if incorrect, include the actual size
    if bit_lengths.len() != huffman_encoding.num_literals {
        encoder.encode_value(huffman_encoding.num_literals as u16 - 257, 5);

        bit_lengths.resize(huffman_encoding.num_literals, 0);
    }

    // now predict the size of the distance tree
    let mut distance_code_lengths = calc_bit_lengths(huffcalc, &freq.distance_codes, 15);
    //assert_eq!(distance_code_lengths[..], bo[..]);

    encoder.encode_misprediction(
        CodecMisprediction::DistanceCountMisprediction,
        distance_code_lengths.len() != huffman_encoding.num_dist,
    );

    // if incorrect, include the actual size
    if distance_code_lengths.len() != huffman_encoding.num_dist {
        encoder.encode_value(huffman_encoding.num_dist as u16 - 1, 5);

        distance_code_lengths.resize(huffman_encoding.num_dist, 0);
    }

    bit_lengths.append(&mut distance_code_lengths);

    // now predict each length code
    predict_ld_trees(encoder, &bit_lengths, huffman_encoding.lengths.as_slice())?;

    // final step, we need to construct the second level huffman tree that is used
    // to store the bit lengths of the huffman tree we just created
    let codetree_freq = calc_codetree_freq(&huffman_encoding.lengths);

    let mut tc_code_tree = calc_bit_lengths(huffcalc, &codetree_freq, 7);

    let tc_code_tree_len = calc_tc_lengths_without_trailing_zeros(&tc_code_tree);

    if tc_code_tree_len != huffman_encoding.num_code_lengths {
        encoder.encode_misprediction(CodecMisprediction::TreeCodeCountMisprediction, true);
        encoder.encode_value(huffman_encoding.num_code_lengths as u16 - 4, 4);
    } else {
        encoder.encode_misprediction(CodecMisprediction::TreeCodeCountMisprediction, false);
    }

    // resize so that when we walk through in TREE_CODE_ORDER_TABLE order, we
    // don't go out of range.
    tc_code_tree.resize(CODETREE_CODE_COUNT, 0);

    for i in 0..huffman_encoding.num_code_lengths {
        let predicted_bl = tc_code_tree[TREE_CODE_ORDER_TABLE[i]];
        encoder.encode_correction(
            CodecCorrection::TreeCodeBitLengthCorrection,
            encode_difference(
                predicted_bl.into(),
                huffman_encoding.code_lengths[TREE_CODE_ORDER_TABLE[i]].into(),
            ),
        );
    }

    Ok(())
}

pub fn recreate_tree_for_block<D: PredictionDecoder>(
    freq: &TokenFrequency,
    codec: &mut D,
    huffcalc: HufftreeBitCalc,
) -> Result<HuffmanOriginalEncoding> {
    codec.decode_verify_state("tree", 0);

    let mut result: HuffmanOriginalEncoding = Default::default();

    let mut bit_lengths = calc_bit_lengths(huffcalc, &freq.literal_codes, 15);

    if codec.decode_misprediction(CodecMisprediction::LiteralCountMisprediction) {
        let corrected_num_literals = codec.decode_value(5) as usize + NONLEN_CODE_COUNT;
        bit_lengths.resize(corrected_num_literals, 0);
    }

    result.num_literals = bit_lengths.len();

    let mut distance_code_lengths = calc_bit_lengths(huffcalc, &freq.distance_codes, 15);

    if codec.decode_misprediction(CodecMisprediction::DistanceCountMisprediction) {
        let corrected_num_distance = codec.decode_value(5) as usize + 1;
        distance_code_lengths.resize(corrected_num_distance, 0);
    }

    result.num_dist = distance_code_lengths.len();

    // frequences are encoded as appended together as a single vector
    bit_lengths.append(&mut distance_code_lengths);

    result.lengths = reconstruct_ld_trees(codec, &bit_lengths)?;

    let bl_freqs = calc_codetree_freq(&result.lengths);

    let mut tc_code_tree = calc_bit_lengths(huffcalc, &bl_freqs, 7);

    let mut tc_code_tree_len = calc_tc_lengths_without_trailing_zeros(&tc_code_tree);

    if codec.decode_misprediction(CodecMisprediction::TreeCodeCountMisprediction) {
        tc_code_tree_len = codec.decode_value(4) as usize + 4;
    }

    result.num_code_lengths = tc_code_tree_len;

    // resize so that when we walk through in TREE_CODE_ORDER_TABLE order, we
    // don't go out of range.
    tc_code_tree.resize(CODETREE_CODE_COUNT, 0);

    for i in 0..tc_code_tree_len {
        result.code_lengths[TREE_CODE_ORDER_TABLE[i]] = decode_difference(
            tc_code_tree[TREE_CODE_ORDER_TABLE[i]].into(),
            codec.decode_correction(CodecCorrection::TreeCodeBitLengthCorrection),
        ) as u8;
    }

    Ok(result)
}

/// since treecodes are encoded in a different order (see TREE_CODE_ORDER_TABLE) in
/// order to optimize the chance of removing trailing zeros, we need to calculate
/// the effective encoding size of the length codes
fn calc_tc_lengths_without_trailing_zeros(bit_lengths: &[u8]) -> usize {
    let mut len = bit_lengths.len();
    // remove trailing zeros (the vector ends at the last used code, so anything beyond
    // it, e.g. the repeat codes 16-18 if they are not used, has length zero as well)
    while len > 4
        && bit_lengths
            .get(TREE_CODE_ORDER_TABLE[len - 1])
            .map_or(true, |&l| l == 0)
    {
        len -= 1;
    }

    len
}

fn predict_ld_trees<D: PredictionEncoder>(
    encoder: &mut D,
    predicted_bit_len: &[u8],
    actual_target_codes: &[(TreeCodeType, u8)],
) -> Result<()> {
    let mut symbols = predicted_bit_len;
    let mut prev_code = None;

    assert_eq!(
        actual_target_codes
            .iter()
            .map(|&(a, b)| if a == TreeCodeType::Code {
                1
            } else {
                b as usize
            })
            .sum::<usize>(),
        predicted_bit_len.len(),
        "target_codes RLE encoding should sum to the same length as sym_bit_len"
    );

    for &(target_tree_code_type, target_tree_code_data) in actual_target_codes.iter() {
        if symbols.is_empty() {
            return err_exit_code(ExitCode::InvalidDeflate, "Reconstruction failed");
        }

        let predicted_tree_code_type: TreeCodeType = predict_code_type(symbols, prev_code);

        prev_code = Some(symbols[0]);

        encoder.encode_correction(
            CodecCorrection::LDTypeCorrection,
            encode_difference(
                predicted_tree_code_type as u32,
                target_tree_code_type as u32,
            ),
        );

        let predicted_tree_code_data = predict_code_data(symbols, target_tree_code_type);

        if target_tree_code_type != TreeCodeType::Code {
            encoder.encode_correction(
                CodecCorrection::RepeatCountCorrection,
                encode_difference(
                    predicted_tree_code_data.into(),
                    target_tree_code_data.into(),
                ),
            );
        } else {
            encoder.encode_correction(
                CodecCorrection::LDBitLengthCorrection,
                encode_difference(
                    predicted_tree_code_data.into(),
                    target_tree_code_data.into(),
                ),
            );
        }

        if target_tree_code_type == TreeCodeType::Code {
            symbols = &symbols[1..];
        } else {
            symbols = &symbols[target_tree_code_data as usize..];
        }
    }

    Ok(())
}

fn reconstruct_ld_trees<D: PredictionDecoder>(
    decoder: &mut D,
    sym_bit_len: &[u8],
) -> Result<Vec<(TreeCodeType, u8)>> {
    let mut symbols = sym_bit_len;
    let mut prev_code = None;
    let mut result: Vec<(TreeCodeType, u8)> = Vec::new();

    while !symbols.is_empty() {
        let predicted_tree_code_type = predict_code_type(symbols, prev_code);
        prev_code = Some(symbols[0]);

        let predicted_tree_code_type_u32 = decode_difference(
            predicted_tree_code_type as u32,
            decoder.decode_correction(CodecCorrection::LDTypeCorrection),
        );

        const TC_CODE: u32 = TreeCodeType::Code as u32;
        const TC_REPEAT: u32 = TreeCodeType::Repeat as u32;
        const TC_ZERO_SHORT: u32 = TreeCodeType::ZeroShort as u32;
        const TC_ZERO_LONG: u32 = TreeCodeType::ZeroLong as u32;

        let predicted_tree_code_type = match predicted_tree_code_type_u32 {
            TC_CODE => TreeCodeType::Code,
            TC_REPEAT => TreeCodeType::Repeat,
            TC_ZERO_SHORT => TreeCodeType::ZeroShort,
            TC_ZERO_LONG => TreeCodeType::ZeroLong,
            _ => return err_exit_code(ExitCode::RecompressFailed, "Reconstruction failed"),
        };

        let mut predicted_tree_code_data = predict_code_data(symbols, predicted_tree_code_type);

        if predicted_tree_code_type != TreeCodeType::Code {
            predicted_tree_code_data = decode_difference(
                predicted_tree_code_data.into(),
                decoder.decode_correction(CodecCorrection::RepeatCountCorrection),
            ) as u8;
        } else {
            predicted_tree_code_data = decode_difference(
                predicted_tree_code_data.into(),
                decoder.decode_correction(CodecCorrection::LDBitLengthCorrection),
            ) as u8;
        }

        result.push((predicted_tree_code_type, predicted_tree_code_data));

        if predicted_tree_code_type == TreeCodeType::Code {
            symbols = &symbols[1..];
        } else {
            symbols = &symbols[predicted_tree_code_data as usize..];
        }
    }

    Ok(result)
}

/// calculates the treecode frequence for the given block, which is used to
/// to calculate the huffman tree for encoding the treecodes themselves
fn calc_codetree_freq(codes: &[(TreeCodeType, u8)]) -> [u16; CODETREE_CODE_COUNT] {
    let mut bl_freqs = [0u16; CODETREE_CODE_COUNT];

    for (code, data) in codes.iter() {
        match code {
            TreeCodeType::Code => {
                bl_freqs[*data as usize] += 1;
            }
            TreeCodeType::Repeat => {
                bl_freqs[16] += 1;
            }
            TreeCodeType::ZeroShort => {
                bl_freqs[17] += 1;
            }
            TreeCodeType::ZeroLong => {
                bl_freqs[18] += 1;
            }
        }
    }

    bl_freqs
}

fn predict_code_type(sym_bit_len: &[u8], previous_code: Option<u8>) -> TreeCodeType {
    let code = sym_bit_len[0];
    if code == 0 {
        let mut curlen = 1;
        let max_cur_len = std::cmp::min(sym_bit_len.len(), 11);
        while curlen < max_cur_len && sym_bit_len[curlen] == 0 {
            curlen += 1;
        }
        if curlen >= 11 {
            TreeCodeType::ZeroLong
        } else if curlen >= 3 {
            TreeCodeType::ZeroShort
        } else {
            TreeCodeType::Code
        }
    } else if let Some(code) = previous_code {
        let mut curlen = 0;
        while curlen < sym_bit_len.len() && sym_bit_len[curlen] == code {
            curlen += 1;
        }
        if curlen >= 3 {
            TreeCodeType::Repeat
        } else {
            TreeCodeType::Code
        }
    } else {
        TreeCodeType::Code
    }
}

fn predict_code_data(sym_bit_len: &[u8], code_type: TreeCodeType) -> u8 {
    let code = sym_bit_len[0];
    match code_type {
        TreeCodeType::Code => code,
        TreeCodeType::Repeat => {
            let mut curlen = 3;
            let max_cur_len = std::cmp::min(sym_bit_len.len(), 6);
            while curlen < max_cur_len && sym_bit_len[curlen] == code {
                curlen += 1;
            }
            curlen as u8
        }
        TreeCodeType::ZeroShort | TreeCodeType::ZeroLong => {
            let mut curlen = if code_type == TreeCodeType::ZeroShort {
                3
            } else {
                11
            };
            let max_cur_len = std::cmp::min(
                sym_bit_len.len(),
                if code_type == TreeCodeType::ZeroShort {
                    10
                } else {
                    138
                },
            );
            while curlen < max_cur_len && sym_bit_len[curlen] == 0 {
                curlen += 1;
            }
            curlen as u8
        }
    }
}

#[test]
fn encode_roundtrip_perfect() {
    use crate::statistical_codec::AssertDefaultOnlyDecoder;
    use crate::statistical_codec::VerifyPredictionEncoder;

    for huffcalc in [HufftreeBitCalc::Miniz, HufftreeBitCalc::Zlib] {
        let mut freq = TokenFrequency::default();
        freq.literal_codes[0] = 100;
        freq.literal_codes[1] = 50;
        freq.literal_codes[2] = 25;

        freq.distance_codes[0] = 100;
        freq.distance_codes[1] = 50;
        freq.distance_codes[2] = 25;

        let mut empty_decoder = AssertDefaultOnlyDecoder {};
        let regenerated_header =
            recreate_tree_for_block(&freq, &mut empty_decoder, huffcalc).unwrap();

        assert_eq!(regenerated_header.num_literals, 257);
        assert_eq!(regenerated_header.num_dist, 3);
        assert_eq!(regenerated_header.lengths[0], (TreeCodeType::Code, 1));
        assert_eq!(regenerated_header.lengths[1], (TreeCodeType::Code, 2));
        assert_eq!(regenerated_header.lengths[2], (TreeCodeType::Code, 3));

        let mut empty_encoder = VerifyPredictionEncoder::default();
        predict_tree_for_block(&regenerated_header, &freq, &mut empty_encoder, huffcalc).unwrap();
        assert_eq!(empty_encoder.count_nondefault_actions(), 0);
    }
}

#[test]
fn encode_perfect_encoding() {
    use crate::statistical_codec::{AssertDefaultOnlyDecoder, VerifyPredictionEncoder};

    let mut freq = TokenFrequency::default();
    // fill with random frequencies
    let mut v: u16 = 10;
    freq.literal_codes.fill_with(|| {
        v = v.wrapping_add(997);
        v
    });
    freq.distance_codes.fill_with(|| {
        v = v.wrapping_add(997);
        v
    });

    // use the default encoder the says that everything is ok
    let mut default_only_decoder = AssertDefaultOnlyDecoder {};
    let default_encoding =
        recreate_tree_for_block(&freq, &mut default_only_decoder, HufftreeBitCalc::Zlib).unwrap();

    // now predict the encoding using the default encoding and it should be perfect
    let mut empty_encoder = VerifyPredictionEncoder::default();
    predict_tree_for_block(
        &default_encoding,
        &freq,
        &mut empty_encoder,
        HufftreeBitCalc::Zlib,
    )
    .unwrap();
    assert_eq!(empty_encoder.count_nondefault_actions(), 0);
}

#[test]
fn encode_tree_roundtrip() {
    use crate::statistical_codec::{VerifyPredictionDecoder, VerifyPredictionEncoder};

    let mut freq = TokenFrequency::default();
    freq.literal_codes[0] = 100;
    freq.literal_codes[1] = 50;
    freq.literal_codes[2] = 25;

    freq.distance_codes[0] = 100;
    freq.distance_codes[1] = 50;
    freq.distance_codes[2] = 25;

    let huff_origin = HuffmanOriginalEncoding {
        lengths: vec![
            (TreeCodeType::Code, 4),
            (TreeCodeType::Code, 4),
            (TreeCodeType::Code, 4),
            (TreeCodeType::ZeroLong, 138),
            (TreeCodeType::ZeroLong, 115),
            (TreeCodeType::Code, 3),
            (TreeCodeType::Code, 1),
            (TreeCodeType::Code, 2),
            (TreeCodeType::Code, 2),
        ],
        code_lengths: [0, 3, 2, 3, 0, 0, 0, 0, 3, 0, 0, 0, 0, 0, 0, 0, 0, 0, 0],
        num_literals: 257,
        num_dist: 3,
        num_code_lengths: 19,
    };

    let mut encoder = VerifyPredictionEncoder::default();

    predict_tree_for_block(&huff_origin, &freq, &mut encoder, HufftreeBitCalc::Zlib).unwrap();

    let mut decoder = VerifyPredictionDecoder::new(encoder.actions());

    let regenerated_header =
        recreate_tree_for_block(&freq, &mut decoder, HufftreeBitCalc::Zlib).unwrap();

    assert_eq!(huff_origin, regenerated_header);
}

/// test that we can reconstruct the tree from the predicted bit lengths where
/// the predicted lengths are totally wrong
#[test]
fn encode_totally_different_tree() {
    use crate::statistical_codec::{VerifyPredictionDecoder, VerifyPredictionEncoder};
    use TreeCodeType::*;

    #[rustfmt::skip]
    let predicted_bit_len = [0, 0, 0, 0, 0, 0, 0, 0, 0, 0, 0, 0, 0, 0, 0, 0, 0, 0, 0, 0,
        0, 0, 0, 0, 0, 0, 0, 0, 0, 0, 0, 0, 6, 0, 5, 0, 0, 0, 0, 0, 0, 0, 0, 8, 0, 6, 6, 5, 7, 7, 8,
        0, 0, 0, 8, 0, 8, 0, 8, 0, 7, 6, 7, 7, 0, 0, 0, 8, 8, 7, 0, 0, 0, 0, 0, 0, 0, 0, 8, 8, 7, 0,
        0, 8, 7, 0, 0, 8, 0, 0, 0, 0, 0, 0, 0, 0, 0, 5, 7, 5, 6, 4, 6, 7, 7, 5, 8, 8, 6, 5, 5, 5, 5,
        0, 5, 5, 4, 7, 7, 7, 7, 7, 0, 0, 0, 0, 0, 0, 0, 0, 0, 0, 0, 0, 0, 0, 0, 0, 0, 0, 0, 0, 0, 0,
        0, 0, 0, 0, 0, 0, 0, 0, 0, 0, 0, 0, 0, 0, 0, 0, 0, 0, 0, 0, 0, 0, 0, 0, 0, 0, 0, 0, 0, 0, 0,
        0, 0, 0, 0, 0, 0, 0, 0, 0, 0, 0, 0, 8, 0, 0, 0, 8, 0, 0, 0, 0, 0, 0, 0, 0, 0, 0, 0, 0, 0, 0,
        0, 0, 0, 0, 0, 0, 0, 0, 0, 0, 0, 0, 0, 0, 0, 0, 0, 0, 0, 0, 0, 0, 0, 0, 0, 0, 0, 0, 0, 0, 0,
        0, 0, 8, 0, 0, 0, 0, 0, 0, 0, 0, 0, 0, 0, 0, 0, 0, 0, 0, 8, 4, 6, 6, 6, 7, 8, 6, 0, 8, 0, 7,
        0, 7, 7, 7, 6, 6, 7, 8, 8, 7, 8, 0, 0, 0, 0, 0, 0, 0, 0, 0, 0, 0, 7, 0, 0, 7, 7, 4, 4, 3, 3,
        2, 3, 3, 7, 6, 6, 0, 4, 0, 0, 0, 0, 0, 0, 0, 0, 0];

    #[rustfmt::skip]
    let actual_target_codes  =
        [(Code, 14), (Repeat, 6), (Code, 14), (Code, 14), (Code, 12), (Code, 6), (Code, 14),
        (Repeat, 6), (Repeat, 6), (Repeat, 6), (Code, 13), (Code, 14), (Code, 6), (Code, 14),
        (Code, 10), (Code, 12), (Code, 14), (Code, 14), (Code, 13), (Code, 10), (Code, 8), (Code, 9),
        (Code, 11), (Code, 10), (Code, 7), (Code, 8), (Code, 7), (Code, 9), (Code, 8), (Code, 8),
        (Code, 8), (Code, 9), (Code, 8), (Code, 9), (Code, 10), (Code, 9), (Code, 8), (Code, 9),
        (Code, 9), (Code, 8), (Code, 9), (Code, 10), (Code, 8), (Code, 14), (Code, 14), (Code, 8),
        (Code, 9), (Code, 8), (Code, 9), (Code, 8), (Code, 9), (Code, 10), (Code, 11), (Code, 8),
        (Code, 11), (Code, 14), (Code, 9), (Code, 10), (Code, 9), (Code, 10), (Code, 9), (Code, 12),
        (Code, 9), (Code, 9), (Code, 9), (Code, 10), (Code, 12), (Code, 11), (Code, 14), (Code, 14),
        (Code, 12), (Code, 11), (Code, 14), (Code, 11), (Code, 14), (Code, 14), (Code, 14), (Code, 6),
        (Code, 7), (Code, 7), (Code, 7), (Code, 6), (Code, 8), (Code, 8), (Code, 7), (Code, 6),
        (Code, 12), (Code, 9), (Code, 6), (Code, 7), (Code, 7), (Code, 6), (Code, 7), (Code, 13),
        (Code, 6), (Code, 6), (Code, 6), (Code, 7), (Code, 8), (Code, 8), (Code, 9), (Code, 8),
        (Code, 11), (Code, 13), (Code, 12), (Code, 13), (Code, 13), (Code, 14), (Repeat, 6),
        (Repeat, 6), (Repeat, 6), (Repeat, 6), (Repeat, 6), (Repeat, 6), (Repeat, 6), (Repeat, 6),
        (Repeat, 6), (Repeat, 6), (Repeat, 6), (Repeat, 6), (Repeat, 6), (Repeat, 6), (Repeat, 6),
        (Repeat, 6), (Repeat, 6), (Repeat, 6), (Repeat, 6), (Code, 14), (Code, 13), (Code, 13),
        (Code, 13), (Code, 14), (Code, 13), (Code, 14), (Code, 13), (Code, 14), (Code, 13),
        (Code, 14), (Repeat, 4), (Code, 4), (Code, 3), (Code, 4), (Code, 4), (Code, 4), (Code, 5),
        (Repeat, 4), (Code, 6), (Code, 6), (Code, 5), (Code, 6), (Code, 7), (Code, 8), (Code, 8),
        (Code, 9), (Code, 10), (Code, 9), (Code, 10), (Code, 12), (Code, 11), (Code, 12), (Code, 14),
        (Code, 14), (Code, 14), (Code, 12), (Code, 11), (Code, 6), (Code, 10), (Code, 11), (Code, 11),
        (Code, 9), (Code, 8), (Code, 8), (Code, 8), (Code, 7), (Code, 7), (Code, 5), (Code, 6),
        (Code, 4), (Code, 5), (Code, 4), (Code, 5), (Code, 4), (Code, 5), (Code, 4), (Repeat, 6),
        (Code, 5), (Code, 4), (Code, 5), (Code, 5), (Code, 5)];

    let mut encoder = VerifyPredictionEncoder::default();

    predict_ld_trees(&mut encoder, &predicted_bit_len, &actual_target_codes).unwrap();

    let mut decoder = VerifyPredictionDecoder::new(encoder.actions());

    let regenerated_header = reconstruct_ld_trees(&mut decoder, &predicted_bit_len).unwrap();

    assert_eq!(actual_target_codes, regenerated_header.as_slice());
}
