use std::io::{Read, Write};

use crate::preflate_error::Result;

use crate::{
    preflate_container::{read_varint, write_varint},
    preflate_error::{err_exit_code, ExitCode},
};

#[derive(Debug, PartialEq)]
pub struct IdatContents {
    /// the sizes of the IDAT chunks
    pub chunk_sizes: Vec<u32>,

    /// the zlib header we found
    pub zlib_header: [u8; 2],

    /// the size of all the chunks combined including headers and crc
    pub total_chunk_length: usize,

    /// addler32 appended to the zlib stream
    pub addler32: u32,
}

impl IdatContents {
    pub fn read_from_bytestream(r: &mut impl Read) -> std::io::Result<IdatContents> {
        let mut chunk_sizes = Vec::new();

        loop {
            let r = read_varint(r)?;
            if r == 0 {
                break;
            }
            chunk_sizes.push(r);
        }

        let mut zlib_header = [0, 0];
        r.read_exact(&mut zlib_header)?;

        let mut addler32 = [0u8; 4];
        r.read_exact(&mut addler32)?;

        // total chunk size is the sum of all the chunk sizes + 2 bytes for the zlib header + 4 bytes for the addler32
        let total_chunk_length = chunk_sizes.iter().sum::<u32>() + 2 + 4;

        Ok(IdatContents {
            chunk_sizes,
            zlib_header,
            total_chunk_length: total_chunk_length as usize,
            addler32: u32::from_be_bytes(addler32),
        })
    }

    pub fn write_to_bytestream(&self, w: &mut impl std::io::Write) -> std::io::Result<()> {
        for &chunk_size in self.chunk_sizes.iter() {
            write_varint(w, chunk_size)?;
        }
        write_varint(w, 0)?;

        w.write_all(&self.zlib_header)?;

        w.write_all(&self.addler32.to_be_bytes())?;

        Ok(())
    }
}

/// test that we can read and write the serialized info
#[test]
fn test_idat_header_roundtrip() {
    let idat = IdatContents {
        chunk_sizes: vec![1, 2, 30000],
        zlib_header: [4, 5],
        total_chunk_length: 1 + 2 + 30000 + 2 + 4,
        addler32: 0x12345678,
    };

    let mut buffer = Vec::new();
    idat.write_to_bytestream(&mut buffer).unwrap();

    let mut cur = std::io::Cursor::new(&buffer);

    let idat2 = IdatContents::read_from_bytestream(&mut cur).unwrap();

    assert_eq!(idat, idat2);
}

/// parses PNG IDAT chunks starting from the first one and returns the embedded deflate stream and the IDAT chunk sizes
pub fn parse_idat(
    png_idat_stream: &[u8],
    deflate_info_dump_level: u32,
) -> Result<(IdatContents, Vec<u8>)> {
    if png_idat_stream.len() < 12 || &png_idat_stream[4..8] != b"IDAT" {
        return err_exit_code(ExitCode::InvalidIDat, "No IDAT chunk found");
    }

    let mut deflate_stream = Vec::new();

    // track the chunk sizes we've seen
    let mut idat_chunk_sizes = Vec::new();
    let mut pos = 0;

    while pos < png_idat_stream.len() {
        // png chunks start with the length of the chunk
        let chunk_len = u32::from_be_bytes([
            png_idat_stream[pos],
            png_idat_stream[pos + 1],
            png_idat_stream[pos + 2],
            png_idat_stream[pos + 3],
        ]) as usize;

        // now look at the chunk type. We only want IDAT chunks
        // and they have to be consecutive, so stop once we see
        // something weird
        let chunk_type = &png_idat_stream[pos + 4..pos + 8];
        if chunk_type != b"IDAT" || pos + chunk_len + 12 > png_idat_stream.len() {
            break;
        }

        let chunk = &png_idat_stream[pos + 8..pos + chunk_len + 8];
        deflate_stream.extend_from_slice(chunk);

        let mut crc = crc32fast::Hasher::new();
        crc.update(chunk_type);
        crc.update(chunk);

        if crc.finalize()
            != u32::from_be_bytes([
                png_idat_stream[pos + chunk_len + 8],
                png_idat_stream[pos + chunk_len + 9],
                png_idat_stream[pos + chunk_len + 10],
                png_idat_stream[pos + chunk_len + 11],
            ])
        {
            return err_exit_code(ExitCode::InvalidIDat, "CRC mismatch");
        }

        idat_chunk_sizes.push(chunk_len as u32);
        pos += chunk_len + 12;
    }

    if deflate_info_dump_level > 0 {
        println!("IDAT boundaries: {:?}", idat_chunk_sizes);
    }

    // we need at least the 2 byte zlib header and the 4 byte adler32
    if deflate_stream.len() < 6 {
        return err_exit_code(ExitCode::InvalidIDat, "No IDAT data found");
    }

    // remove the zlib header since it can be somewhat arbitary so we store it seperately
    let idat_zlib_header = [deflate_stream[0], deflate_stream[1]];

    let addler32 = u32::from_be_bytes(
        deflate_stream[deflate_stream.len() - 4..]
            .try_into()
            .unwrap(),
    );

    deflate_stream.drain(0..2);
    deflate_stream.drain(deflate_stream.len() - 4..);

    Ok((
        IdatContents {
            chunk_sizes: idat_chunk_sizes,
            zlib_header: idat_zlib_header,
            total_chunk_length: pos,
            addler32,
        },
        deflate_stream,
    ))
}

/// recreates the IDAT chunks from the header and the deflate stream
pub fn recreate_idat(
    idat: &IdatContents,
    deflate_stream: &[u8],
    output: &mut impl Write,
) -> Result<()> {
    // the total length of the chunks is the sum of the chunk sizes + 2 bytes for the zlib header + 4 bytes for the addler32
    if idat.chunk_sizes.iter().sum::<u32>() as usize != deflate_stream.len() + 2 + 4 {
        return err_exit_code(
            ExitCode::InvalidIDat,
            "Chunk sizes do not match deflate stream length",
        );
    }

    let mut index = 0;

    let mut contents = idat.zlib_header.to_vec();
    contents.extend(deflate_stream);
    contents.extend(idat.addler32.to_be_bytes().iter());

    for &chunk_size in idat.chunk_sizes.iter() {
        output.write_all(&chunk_size.to_be_bytes())?;
        output.write_all(b"IDAT")?;

        let content = &contents[index..index + chunk_size as usize];
        output.write_all(content)?;

        let mut crc = crc32fast::Hasher::new();
        crc.update(b"IDAT");
        crc.update(content);

        output.write_all(&crc.finalize().to_be_bytes())?;

        index += chunk_size as usize;
    }

    Ok(())
}

#[test]
fn parse_and_recreate_png() {
    let f = crate::process::read_file("treegdi.png");

    // we know the first IDAT chunk starts at 83 (avoid testing the scan_deflate code in a unit teast)
    let (idat_contents, deflate_stream) = parse_idat(&f[83..], 1).unwrap();

    println!("locations found: {:?}", idat_contents);
    assert_eq!(idat_contents.chunk_sizes, [65445, 65524, 40164]);
    assert_eq!(idat_contents.zlib_header, [120, 94]);

    let contents = crate::process::parse_deflate(&deflate_stream, 1).unwrap();

    assert_eq!(deflate_stream.len(), contents.compressed_size as usize);

    let total_chunk_length = idat_contents.total_chunk_length;

    let mut recreated = Vec::new();
    recreate_idat(&idat_contents, &deflate_stream, &mut recreated).unwrap();

    assert_eq!(total_chunk_length, recreated.len());

    assert!(f[83..83 + total_chunk_length] == recreated);
}
