/*---------------------------------------------------------------------------------------------
 *  Copyright (c) Microsoft Corporation. All rights reserved.
 *  Licensed under the Apache License, Version 2.0. See LICENSE.txt in the project root for license information.
 *  This software incorporates material from third parties. See NOTICE.txt for details.
 *--------------------------------------------------------------------------------------------*/

use crate::preflate_error::Result;

use crate::{
    bit_writer::BitWriter,
    huffman_encoding::HuffmanWriter,
    preflate_constants::{
        quantize_distance, quantize_length, DIST_BASE_TABLE, DIST_EXTRA_TABLE, LENGTH_BASE_TABLE,
        LENGTH_EXTRA_TABLE, LITLEN_CODE_COUNT, MIN_MATCH, NONLEN_CODE_COUNT,
    },
    preflate_token::{BlockType, PreflateToken, PreflateTokenBlock},
};

pub struct DeflateWriter {
    /// bit writer to write partial bits to output
    bitwriter: BitWriter,

    /// compressed output
    output: Vec<u8>,
}

impl DeflateWriter {
    pub fn new() -> Self {
        Self {
            output: Vec::new(),
            bitwriter: BitWriter::default(),
        }
    }

    pub fn detach_output(&mut self) -> Vec<u8> {
        let mut o = Vec::new();
        o.append(&mut self.output);
        o
    }

    pub fn encode_block(&mut self, block: &PreflateTokenBlock, last: bool) -> Result<()> {
        self.bitwriter.write(last as u32, 1, &mut self.output);
        match block.block_type {
            BlockType::Stored => {
                self.bitwriter.write(0, 2, &mut self.output);
                self.bitwriter.pad(block.padding_bits, &mut self.output);
                self.bitwriter.flush_whole_bytes(&mut self.output);

                self.output
                    .extend_from_slice(&(block.uncompressed.len() as u16).to_le_bytes());
                self.output
                    .extend_from_slice(&(!block.uncompressed.len() as u16).to_le_bytes());

                self.output.extend_from_slice(&block.uncompressed);
            }
            BlockType::StaticHuff => {
                self.bitwriter.write(1, 2, &mut self.output);
                let huffman_writer = HuffmanWriter::start_fixed_huffman_table();
                self.encode_block_with_decoder(block, &huffman_writer);
            }
            BlockType::DynamicHuff => {
                let huffman_writer = HuffmanWriter::start_dynamic_huffman_table(
                    &mut self.bitwriter,
                    &block.huffman_encoding,
                    &mut self.output,
                )?;

                self.encode_block_with_decoder(block, &huffman_writer);
            }
        }

        Ok(())
    }

    pub fn flush_with_padding(&mut self, padding: u8) {
        self.bitwriter.pad(padding, &mut self.output);
        self.bitwriter.flush_whole_bytes(&mut self.output);
    }

    fn encode_block_with_decoder(
        &mut self,
        block: &PreflateTokenBlock,
        huffman_writer: &HuffmanWriter,
    ) {
        for token in &block.tokens {
            match token {
                PreflateToken::Literal(lit) => {
                    huffman_writer.write_literal(
                        &mut self.bitwriter,
                        &mut self.output,
                        u16::from(*lit),
                    );
                }
                PreflateToken::Reference(reference) => {
                    if reference.get_irregular258() {
                        huffman_writer.write_literal(
                            &mut self.bitwriter,
                            &mut self.output,
                            LITLEN_CODE_COUNT as u16 - 2,
                        );
                        self.bitwriter.write(31, 5, &mut self.output);
                    } else {
                        let lencode = quantize_length(reference.len());
                        huffman_writer.write_literal(
                            &mut self.bitwriter,
                            &mut self.output,
                            NONLEN_CODE_COUNT as u16 + lencode as u16,
                        );

                        let lenextra = LENGTH_EXTRA_TABLE[lencode];
                        if lenextra > 0 {
                            self.bitwriter.write(
                                reference.len() - MIN_MATCH - LENGTH_BASE_TABLE[lencode] as u32,
                                lenextra.into(),
                                &mut self.output,
                            );
                        }
                    }

                    let distcode = quantize_distance(reference.dist());
                    huffman_writer.write_distance(
                        &mut self.bitwriter,
                        &mut self.output,
                        distcode as u16,
                    );

                    let distextra = DIST_EXTRA_TABLE[distcode];
                    if distextra > 0 {
                        self.bitwriter.write(
                            reference.dist() - 1 - DIST_BASE_TABLE[distcode] as u32,
                            distextra.into(),
                            &mut self.output,
                        );
                    }
                }
            }
        }

        huffman_writer.write_literal(&mut self.bitwriter, &mut self.output, 256);
    }
}
