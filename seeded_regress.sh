#!/bin/bash
# applies every stored seeded change to /repo in turn, runs the property's own quick check under
# several seeds, restores /repo; prints one line per (change, seed): exit code
cd /verif
SEEDS=${SEEDS:-"1 2 3"}
cd /repo && git diff --quiet || { echo "/repo dirty"; exit 9; }
for d in /verif/seeded/*/; do
  sid=$(basename $d); prop=${sid%%_*}
  cd /repo && git apply $d/patch.diff || { echo "$sid patch failed"; continue; }
  line="$sid"
  for seed in $SEEDS; do
    out=$(cd /verif && VERIF_SEED=$seed ./check $prop --tier quick 2>&1); code=$?
    line="$line seed$seed=$code"
  done
  echo "$line"
  cd /repo && git checkout -q -- .
done
