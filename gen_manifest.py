#!/usr/bin/env python3
"""Generates MANIFEST.json from one table so that it stays consistent and valid."""
import json, subprocess, sys

BASELINE_OFF = ("cd /repo && cargo nextest run --workspace --no-fail-fast --tool-config-file pb:/w/lib/nextest.toml "
                "--profile pb --test-threads 8 --offline || (cd /repo && cargo test --workspace --no-fail-fast --offline)")

CHECKS = {
    "C13": dict(
        engine="simstore-io", category="fault_enumeration", design_ref="DESIGN.md 5.1",
        technique="deterministic simulation: fault-injecting Read/Write stubs under recreated_zlib_chunks, complete single-fault enumeration per workload plus seeded multi-fault plans, oracle over the recorded I/O history, replayable explicit plans",
        text="Every container offset and every output offset of each generated workload receives a one-shot hard I/O error (8 error kinds x 4 ways of constructing the io::Error: message, bare kind, raw OS error, wrapped PreflateError) under several fragmentation modes (complete enumeration for containers up to 16 KiB), plus seeded multi-fault plans mixing EINTR bursts, Ok(0) writes, premature EOF and hard errors with random read/write fragmentation, half of them within 2 bytes of a structural boundary. The destination implements nothing but write(). Faults are one-shot or sticky (device stays broken / stays full). After a faulted run a fault-free call on the same thread must reproduce the file (first time per abstract fault state, then 1 in 16). The oracle (same output under any fragmentation; Err + prefix of the original after an I/O error; no panic; bounded progress) is evaluated on the recorded history of accepted bytes. Enumeration is complete per workload for single faults; workloads and multi-fault plans are sampled from a seed, so a clean run is strong evidence, not proof.",
        note="Trusted: the SimReader/SimWriter stubs, the harness's byte comparison, the workload generator (only as a source of files). Workloads whose fault-free round trip fails on the tree are skipped (C01 territory). Release profile as shipped."),
}

CHECKS["C11"] = dict(
    engine="simstore-blob", category="fault_enumeration", design_ref="DESIGN.md 5.3",
    technique="deterministic simulation of the blob store: torn writes (every prefix, zero-filled and old-tail variants), destroyed headers, bit flips, foreign objects, and a memory budget enumerated around the exact expanded size; real zstd as the classifier of 'is a frame'; replayable explicit plans",
    text="For each generated file the blob written by compress_zstd is subjected to every torn-write prefix (complete for blobs up to 4 KiB, always at every zstd block boundary), the same prefixes zero-filled or followed by the tail of an older object, header destruction, bit flips and replacement, and decompress_zstd is called with every capacity below the exact expanded size E (complete up to 24 KiB / 256 KiB), every structural boundary of the expanded form +-1, E..E+2, E+2^k and seeded values; the boundary budgets are repeated right after a successful call with an ample budget on the same thread. Workloads include incompressible files > 640 KiB, files that compress better than 258:1, files larger than their expanded form and files whose chunk boundary falls on a 128 KiB zstd block boundary. Oracle: intact blob and capacity >= E gives exactly F; capacity < E gives Err; an object zstd rejects (or the empty object) gives Err; never a panic, never truncated data as Ok; compress_zstd itself must succeed. Single store faults are enumerated completely per workload; workloads are sampled from the seed.",
    note="Trusted: the zstd C library as classifier of well-formed frames, the harness's byte comparison. Damaged objects that zstd still accepts (no checksum in the bulk API) are not executed/judged. Capacities beyond E + 64 MiB are not explored. Workloads whose fault-free round trip fails are skipped.")

CHECKS["C12"] = dict(
    engine="simstore-cabi", category="fault_enumeration", design_ref="DESIGN.md 5.2",
    technique="deterministic simulation of the C caller: canary-guarded arenas and sentinel result_size, enumerated output-window capacities, panics injected at hook points inside real library frames, process stdout redirected to /dev/full, damaged decompress input; worker processes so that an unwind across extern \"C\" (process abort) is observed and attributed; replayable explicit plans",
    text="Both wrappers are called by a simulated C caller for every listed output-window size around the needed size and zstd's compress_bound, with an internal panic injected at the first/middle/last passage of every hook site each call reaches, with fd 1 on /dev/full, and with torn/smashed/foreign decompress input. After every faulted or failed call the same plan makes a fault-free control call with an ample window (once faults stop, service must be normal). Oracle: guard bytes and input untouched, process alive, status 0 only with result_size <= window and valid bytes (decompress gives F, compress output decompresses to F), undersized gives negative, sufficient gives 0, any fired fault gives negative, the control call equals the fault-free result. Windows are enumerated completely for small files; injection points per site; the thorough tier adds a file whose expanded form is exactly 128 MiB and the repository's sample files; workloads are sampled from the seed.",
    note="Trusted: 4 KiB guard areas (a wild write beyond them is invisible), zstd as frame classifier. Compression windows in [needed, compress_bound) may succeed or fail. After a fired fault only negativity is required. Damaged input that zstd accepts is not executed.")

CHECKS["C14"] = dict(
    engine="simstore-sched", category="exploration", design_ref="DESIGN.md 5.6",
    technique="deterministic simulation of caller threads: real OS threads under a seeded baton scheduler (random walk / PCT / round robin) that owns every context switch at guarded hook points and call boundaries; sequential reference model; fresh-process reference in opposite order; recorded schedules replay exactly and are minimised",
    text="Seeded search over schedules of 1-16 real threads calling all public entry points (including both C wrappers and their error paths) on shared and distinct inputs; the scheduler decides at every guarded hook point, at every read/write call of recreate's source and destination, and at call boundaries; every result must be byte-identical to a sequential reference, to a repeat in the same process in the opposite order, to a fresh process, and to the same call on a copy of the input at each of the 8 buffer alignments. The thorough tier adds a Miri arm (48 seeds, cold start: the two threads make the first calls of the process; preemption at basic-block granularity, data-race and uninitialised-read detection) for the pure-Rust entry points. A clean batch is evidence, not proof: interleavings are sampled, and only at the scheduling points named above.",
    note="Trusted: the baton scheduler (one holder at a time), the hook points as the only preemption points (a race window without a hook point is only reachable by the Miri arm), exit codes as error identity.")

CHECKS["C04"] = dict(
    engine="simstore-upgrade", category="exploration", design_ref="DESIGN.md 5.4",
    technique="deterministic simulation of a restart with a new binary: the frozen reference build writes the durable state (corrections, containers), the working tree reads it (container layer through a fragmenting reader); version constants exported by a guarded hook separate announced from silent format changes; seeded search over the object population",
    text="History per object: PUT by the reference build, upgrade, GET by the current build; every object the reference accepts and reconstructs itself must be reproduced byte-exactly by the current build without panic or process death, as long as both declare the same format versions. The history has one shape; what is searched from the seed is the object population (compressor x level x strategy x window x memLevel x plaintext shape x wrapper), with reach probes over the reference estimator's choices. A clean batch is evidence, not proof.",
    note="Trusted: /verif/reference is a faithful frozen copy of the pinned release (src/*.rs verbatim, lib.rs without the #[no_mangle] wrappers) plus recorded fixes. A changed version constant turns the layer's judgement into an announcement. Rollback reads are not judged.")

CHECKS["C08"] = dict(
    engine="simstore-buggify", category="exploration", design_ref="DESIGN.md 5.5",
    technique="deterministic simulation with a cooperative fault point (buggify) at the estimator seam: a guarded hook overwrites a seeded subset of the estimated parameter fields with other emit-able values; oracle = Err or exact reconstruction + parameters re-read equal + plaintext/consumed length unchanged; container level with the perturbation active for every scanner probe; replayable explicit perturbations",
    text="Seeded search over (stream, parameter vector) pairs: the real estimator runs, then 1-8 fields are replaced by values from the range the estimator can emit (read off its code), with both verify settings and at container level. Reconstruction runs on a fresh thread (stored now, read elsewhere later). Any panic, any accepted-but-differently-reconstructed stream, any re-read parameter difference and any dependence of plaintext/consumed length on the estimate is a violation. The product space is sampled, so a clean batch is evidence, not proof.",
    note="Trusted: the emit-able ranges were read off the estimator's code (add-policy limit 0-255 after the recorded fix, chain depth 1-4096, 3-byte distance 0-32768, the candidate hash list, the lazy rows of the zlib tables). Correction size is recorded, not judged.")

NOT_APPLICABLE = {
    "C01": "pure function of the input file (for all byte strings F): no schedule, I/O outcome, resource limit or crash point in the statement; truncating/flipping foreign input is input generation, not fault injection. Incidental coverage only (fault-free round trip is a precondition of every C11-C13 workload and rejections are counted).",
    "C02": "pure function of the input stream and the verify flag; no seam for the environment to vary. Incidental: the unperturbed runs of C08 and the current-build reads of C04 execute the identity.",
    "C03": "differential test against a second inflater over inputs; nothing to schedule or inject.",
    "C05": "totality over arbitrary foreign byte strings is input enumeration/fuzzing; 'truncated/corrupted' describes the input, not an event at a seam the simulator owns.",
    "C06": "detection of embedded streams depends only on the bytes of the file; no fault, schedule or history dimension.",
    "C07": "parser/writer identity over the token alphabet is exhaustive enumeration of a pure function.",
    "C09": "aggregate statistic (1% / 3%) over an input distribution against a frozen build; no schedule, fault or history to simulate.",
    "C10": "sequential model-based test of an in-memory codec; its Read/Write ends are vectors inside one call, nothing to inject or schedule.",
}

PENDING = {
}

def main():
    checks = []
    for pid, c in sorted(CHECKS.items()):
        checks.append({
            "property_id": pid,
            "quick_cmd": f"./check {pid} --tier quick",
            "thorough_cmd": f"./check {pid} --tier thorough",
            "evidence_file": f"evidence/{pid}.json",
            "replay_cmd_template": f"./check {pid} --replay {{path}}",
            "engine": c["engine"],
            "level_claimed": {"category": c["category"], "text": c["text"], "design_ref": c["design_ref"]},
            "level_note": c["note"],
            "technique": c["technique"],
        })
    na = [{"property_id": k, "reason": v} for k, v in sorted({**NOT_APPLICABLE, **PENDING}.items()) if k not in CHECKS]
    hooks_commits = subprocess.run(["git", "-C", "/repo", "log", "--format=%H %s", "--grep=^verif hooks"],
                                   capture_output=True, text=True).stdout.strip().splitlines()
    m = {
        "version": 1,
        "setup_cmd": "./check --setup",
        "hooks": {
            "guard": "cargo feature verif_hooks (preflate-rs Cargo.toml [features]; default off)",
            "enable": "the simulator crate /verif/sim depends on preflate-rs by path (/repo) with features = [\"verif_hooks\"]; every check runs `cargo build --release --offline` first, which rebuilds the library from /repo's working tree",
            "baseline_off_cmd": BASELINE_OFF,
            "source_commits": [l.split()[0] for l in hooks_commits],
            "add_only": True,
        },
        "engines": [
            {"name": "simstore", "path": "sim/", "serves_properties": sorted(CHECKS.keys()),
             "kind_free_text": "one Rust binary (simcheck): seeded plan generator, fault-injecting I/O / storage / caller stubs, baton scheduler over real threads, supervisor with worker processes, replay and minimisation"},
        ],
        "checks": checks,
        "not_applicable": na,
        "notes": "Technique family: deterministic simulation with fault injection. VERIF_SEED (default 1) decides everything. See DESIGN.md.",
    }
    json.dump(m, open("/verif/MANIFEST.json", "w"), indent=1)
    print("MANIFEST.json written:", len(checks), "checks,", len(na), "not applicable")

if __name__ == "__main__":
    main()
