#!/bin/bash
# Proves that one VERIF_SEED is one execution: every quick check is run with 16 and with 3
# worker processes under two seeds; the whole-run digests (fold of every run's event-log digest)
# must be identical for equal seeds and differ between seeds.
cd "$(dirname "$0")"
ids=$(python3 -c "import json;print(' '.join(c['property_id'] for c in json.load(open('MANIFEST.json'))['checks']))")
rc=0
for id in $ids; do
  declare -A dig
  for seed in 1 7; do
    for w in 16 3; do
      VERIF_SEED=$seed VERIF_WORKERS=$w ./check $id --tier quick >/dev/null 2>&1
      code=$?
      d=$(python3 -c "import json;print(json.load(open('evidence/$id.json'))['coverage']['run_digest'])")
      dig["$seed/$w"]=$d
      [ $code -ne 0 ] && { echo "$id seed=$seed workers=$w exit=$code"; rc=1; }
    done
  done
  line="$id seed1: ${dig[1/16]} ${dig[1/3]}  seed7: ${dig[7/16]} ${dig[7/3]}"
  if [ "${dig[1/16]}" = "${dig[1/3]}" ] && [ "${dig[7/16]}" = "${dig[7/3]}" ] && [ "${dig[1/16]}" != "${dig[7/16]}" ]; then
    echo "OK   $line"
  else
    echo "FAIL $line"; rc=1
  fi
done
exit $rc
