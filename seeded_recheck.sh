#!/bin/bash
# seeded_recheck.sh <seeded-id>...: re-runs every quick check against stored changes (after the
# machinery changed) and refreshes checks_quick / detected_by in their meta.json
cd /repo && git diff --quiet || { echo "/repo dirty"; exit 9; }
for sid in "$@"; do
  d=/verif/seeded/$sid
  cd /repo && git apply $d/patch.diff || { echo "$sid patch failed"; continue; }
  args=()
  for id in $(python3 -c "import json;print(' '.join(c['property_id'] for c in json.load(open('/verif/MANIFEST.json'))['checks']))"); do
    out=$(cd /verif && ./check $id --tier quick 2>&1); code=$?
    first=$(echo "$out" | grep -m1 "^violation:" | cut -c1-300)
    echo "[$sid] check $id exit=$code $first"
    args+=("$id" "$code" "$first")
  done
  cd /repo && git checkout -q -- .
  python3 - "$d/meta.json" "${args[@]}" <<'PY'
import json,sys
p=sys.argv[1]; a=sys.argv[2:]
m=json.load(open(p))
m['checks_quick']={a[i]:{"exit":int(a[i+1]),"first_violation":a[i+2]} for i in range(0,len(a),3)}
m['detected_by']=[k for k,v in m['checks_quick'].items() if v['exit']==1]
m['rechecked_after_machinery_change']=True
json.dump(m,open(p,'w'),indent=1)
PY
done
