#!/bin/bash
# usage: tools_sens.sh <ID> <tier> <python-edit-snippet-file>   (applies edit to /repo, runs check, reverts)
ID=$1; TIER=$2; EDIT=$3
cd /repo && git diff --quiet || { echo "repo dirty"; exit 9; }
python3 "$EDIT" || { git checkout -- .; echo "edit failed"; exit 9; }
git --no-pager diff --stat | tail -1
cd /verif && ./check $ID --tier $TIER | grep -E "^(violation|VIOLATION|C[0-9]+:|HARNESS|KNOWN)" | head -8
echo "exit=${PIPESTATUS[0]}"
cd /repo && git checkout -- . 
