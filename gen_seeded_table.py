#!/usr/bin/env python3
"""Prints the markdown table of /verif/seeded/*/meta.json for DESIGN.md section 15."""
import json, glob, os
rows=[]
for m in sorted(glob.glob('/verif/seeded/*/meta.json')):
    d=json.load(open(m))
    c=d['confirmed']
    ok = c['build_default']=='ok' and c['build_verif_hooks']=='ok' and c['existing_suite_with_mutation'].startswith('59 passed 0') and c['demo_with_mutation']=='fail' and c['demo_without_mutation']=='pass'
    det=d.get("detected_by",[])
    dt=d.get("detected_by_thorough",[])
    prop=d['property']
    clause=''
    ck=d['checks_quick'].get(prop,{})
    if ck.get('first_violation'):
        clause=ck['first_violation'].split('::')[0].replace('violation:','').strip()
    rows.append((d['id'],prop,d.get('summary',''),'yes' if ok else 'NO',', '.join(sorted(det)) or '-', ', '.join(sorted(dt)) or '', clause, d.get('note','')))
print('| id | property | change (one line) | confirmed (builds, 59 tests pass, demo fails/passes) | quick checks that exit 1 | thorough only | clause reported by the property\'s own quick check | note |')
print('|---|---|---|---|---|---|---|---|')
for r in rows:
    print('| '+' | '.join(r)+' |')
