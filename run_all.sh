#!/bin/bash
# runs every claimed check's quick (default) or thorough command on the current tree and validates the evidence
TIER=${1:-quick}
cd "$(dirname "$0")"
rc=0
for id in $(python3 -c "import json;print(' '.join(c['property_id'] for c in json.load(open('MANIFEST.json'))['checks']))"); do
  rm -f evidence/$id.json
  start=$(date +%s)
  out=$(./check $id --tier $TIER 2>&1); code=$?
  echo "$out" | tail -1
  echo "   exit=$code  $(( $(date +%s) - start ))s"
  [ $code -ne 0 ] && { rc=1; echo "$out" | grep -E "VIOLATION|HARNESS|KNOWN" | head; }
  python3-vt - <<PY || rc=1
import json,jsonschema
jsonschema.validate(json.load(open('evidence/$id.json')), json.load(open('/root/.vp/EVIDENCE.schema.json')))
PY
done
python3-vt -c "
import json,jsonschema
jsonschema.validate(json.load(open('MANIFEST.json')), json.load(open('/root/.vp/MANIFEST.schema.json')))"
exit $rc
