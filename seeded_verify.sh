#!/bin/bash
# seeded_verify.sh <worktree> <mutation-number> <seeded-id> <property> [extra demo cargo args]
# 1. confirms in the scratch worktree: patch applies, builds both ways, 59 tests pass, demo fails
#    with the patch and passes without;  2. applies the patch to /repo, runs every quick check,
#    reverts;  3. stores patch, demo and meta.json under /verif/seeded/<seeded-id>/.
WT=$1; N=$2; SID=$3; PROP=$4; shift 4; DEMOARGS="$@"
M=$WT/MUTATIONS/$N
OUT=/verif/seeded/$SID
export CARGO_NET_OFFLINE=true
log() { echo "[$SID] $*"; }
CACHE=/tmp/stage1_$SID.txt
if [ -f $CACHE ] && [ -z "$STAGE1_ONLY" ]; then
  # stage 1 was run ahead of time (STAGE1_ONLY=1), reuse its verdicts
  source $CACHE
  log "(cached) build default=$b1 hooks=$b2 ; suite: $tests ; demo with mutation: $demo_mut ; without: $demo_clean"
else
cd $WT || exit 9
git checkout -q -- . ; rm -f tests/demo.rs
git apply --check $M/patch.diff || { log "patch does not apply"; exit 1; }
git apply $M/patch.diff
b1=ok; cargo build --offline >/dev/null 2>&1 || b1=FAIL
b2=ok; cargo build --offline --features verif_hooks >/dev/null 2>&1 || b2=FAIL
log "build default=$b1 hooks=$b2"
tests=$(cargo test --workspace --no-fail-fast --offline 2>&1 | grep -E "^test result" | awk '{p+=$4; f+=$6} END {print p" passed "f" failed"}')
log "suite with mutation: $tests"
cp $M/demo.rs tests/demo.rs
for f in $M/*; do case "$f" in *patch.diff|*demo.rs|*README.md) ;; *) ;; esac; done
demo_mut=pass; timeout 900 cargo test --offline $DEMOARGS --test demo >/tmp/demo_$SID.mut.log 2>&1 || demo_mut=fail
git checkout -q -- . 
demo_clean=pass; timeout 900 cargo test --offline $DEMOARGS --test demo >/tmp/demo_$SID.clean.log 2>&1 || demo_clean=fail
rm -f tests/demo.rs
log "demo with mutation: $demo_mut ; without: $demo_clean"
printf 'b1=%q\nb2=%q\ntests=%q\ndemo_mut=%q\ndemo_clean=%q\n' "$b1" "$b2" "$tests" "$demo_mut" "$demo_clean" > $CACHE
fi
[ -n "$STAGE1_ONLY" ] && exit 0
# run the checks against the mutation in /repo
cd /repo && git diff --quiet || { log "/repo dirty, abort"; exit 9; }
git apply $M/patch.diff || { log "patch does not apply to /repo"; exit 1; }
declare -A res
for id in $(python3 -c "import json;print(' '.join(c['property_id'] for c in json.load(open('/verif/MANIFEST.json'))['checks']))"); do
  out=$(cd /verif && ./check $id --tier quick 2>&1); code=$?
  first=$(echo "$out" | grep -m1 "^violation:" | cut -c1-300)
  res[$id]="$code|$first"
  log "check $id exit=$code $first"
done
git checkout -q -- .
mkdir -p $OUT
cp $M/patch.diff $OUT/patch.diff; cp $M/demo.rs $OUT/demo.rs
for f in $M/*; do b=$(basename $f); case "$b" in patch.diff|demo.rs|README.md|full_suite_summary.txt) ;; *) cp -r $f $OUT/ ;; esac; done
cp $M/README.md $OUT/agent_README.md 2>/dev/null
python3 - "$OUT" "$SID" "$PROP" "$b1" "$b2" "$tests" "$demo_mut" "$demo_clean" "$DEMOARGS" <<PY
import json,sys
out,sid,prop,b1,b2,tests,dm,dc,dargs=sys.argv[1:10]
checks={}
$(for id in "${!res[@]}"; do echo "checks['$id']=$(python3 -c "import json,sys;print(json.dumps(sys.argv[1]))" "${res[$id]}")"; done)
meta={"id":sid,"property":prop,"source":"independent sub-agent given only the property text and a scratch worktree",
 "confirmed":{"build_default":b1,"build_verif_hooks":b2,"existing_suite_with_mutation":tests,"demo_with_mutation":dm,"demo_without_mutation":dc,
              "demo_command":"cargo test --offline %s --test demo (demo.rs copied to tests/)"%dargs},
 "checks_quick":{k:{"exit":int(v.split('|',1)[0]),"first_violation":v.split('|',1)[1]} for k,v in checks.items()},
 "detected_by":[k for k,v in checks.items() if v.split('|',1)[0]=='1'],
 "what_it_needs":"see agent_README.md"}
json.dump(meta,open(out+"/meta.json","w"),indent=1)
print(json.dumps(meta["detected_by"]))
PY
