#!/bin/bash
# applies a behaviour-preserving change to /repo, runs every quick check (all must exit 0), restores /repo
# usage: benign_verify.sh <patch> <label>
P=$1; L=$2
cd /repo && git diff --quiet || { echo "[$L] /repo dirty"; exit 9; }
git apply $P 2>/dev/null || git apply --3way $P 2>/dev/null || { echo "[$L] patch does not apply to current HEAD"; git checkout -q -- .; git reset -q --hard HEAD; exit 1; }
line="[$L]"
for id in $(python3 -c "import json;print(' '.join(c['property_id'] for c in json.load(open('/verif/MANIFEST.json'))['checks']))"); do
  out=$(cd /verif && ./check $id --tier quick 2>&1); code=$?
  line="$line $id=$code"
  if [ $code -ne 0 ]; then echo "[$L] $id: $(echo "$out" | grep -E '^(violation|HARNESS)' | head -2 | cut -c1-300)"; fi
done
echo "$line"
cd /repo && git reset -q --hard HEAD && git checkout -q -- . && git clean -fdq src
