//! C14 Miri arm: two threads make the first calls of the process (cold start) - both call
//! decompress_deflate_stream + recompress_deflate_stream on the same shared stream - then the
//! sequential reference is computed and compared.
//! Exit 0 = all results identical and Miri saw no data race / uninitialised read.
mod streams;

use preflate_rs::{decompress_deflate_stream, recompress_deflate_stream};
use std::sync::Arc;

fn run(stream: &[u8], verify: bool) -> (Vec<u8>, Vec<u8>, usize, Vec<u8>) {
    let r = decompress_deflate_stream(stream, verify, 0).expect("analysis");
    let back = recompress_deflate_stream(&r.plain_text, &r.prediction_corrections).expect("reconstruction");
    assert_eq!(&back[..], &stream[..r.compressed_size], "reconstruction differs");
    (r.plain_text, r.prediction_corrections, r.compressed_size, back)
}

fn main() {
    // which of the embedded streams: argv[1] (default 0); stream 3 has no 3 byte match, so the
    // estimator works with the 4 byte hash candidates (libdeflate fast, zlib-ng, crc32c)
    let which: usize = std::env::args().nth(1).and_then(|s| s.parse().ok()).unwrap_or(0) % 4;
    let stream: Vec<u8> = match which {
        0 => streams::STREAM_0.to_vec(),
        1 => streams::STREAM_1.to_vec(),
        2 => streams::STREAM_2.to_vec(),
        _ => streams::STREAM_3.to_vec(),
    };
    let shared: Arc<Vec<u8>> = Arc::new(stream);
    // COLD START: the two threads make the first calls of the process (anything initialised
    // lazily on first use is initialised under concurrency); the sequential reference is
    // computed afterwards
    let mut handles = Vec::new();
    for _t in 0..2 {
        let shared = shared.clone();
        handles.push(std::thread::spawn(move || run(&shared, false)));
    }
    let results: Vec<_> = handles.into_iter().map(|h| h.join().expect("thread panicked")).collect();
    // sequential reference (verify = true exercises the in-call reconstruction as well)
    let reference = run(&shared, true);
    for (t, r) in results.iter().enumerate() {
        assert_eq!(*r, reference, "thread {}: result differs from the sequential reference", t);
    }
    println!("c14-miri ok");
}
