//! C14 Miri arm: sequential reference, then two threads each calling
//! decompress_deflate_stream + recompress_deflate_stream on a shared and an own stream.
//! Exit 0 = all results identical and Miri saw no data race / uninitialised read.
mod streams;

use preflate_rs::{decompress_deflate_stream, recompress_deflate_stream};
use std::sync::Arc;

fn run(stream: &[u8], verify: bool) -> (Vec<u8>, Vec<u8>, usize, Vec<u8>) {
    let r = decompress_deflate_stream(stream, verify, 0).expect("analysis");
    let back = recompress_deflate_stream(&r.plain_text, &r.prediction_corrections).expect("reconstruction");
    assert_eq!(&back[..], &stream[..r.compressed_size], "reconstruction differs");
    (r.plain_text, r.prediction_corrections, r.compressed_size, back)
}

fn main() {
    let shared: Arc<Vec<u8>> = Arc::new(streams::STREAM_0.to_vec());
    let own: [Arc<Vec<u8>>; 2] = [Arc::new(streams::STREAM_1.to_vec()), Arc::new(streams::STREAM_2.to_vec())];
    // sequential reference (verify = true exercises the in-call reconstruction as well)
    let ref_shared = run(&shared, true);
    let ref_own = [run(&own[0], false), run(&own[1], false)];
    let mut handles = Vec::new();
    for t in 0..2 {
        let shared = shared.clone();
        let mine = own[t].clone();
        let ref_shared = ref_shared.clone();
        let ref_mine = ref_own[t].clone();
        handles.push(std::thread::spawn(move || {
            let a = run(&shared, false);
            assert_eq!(a, ref_shared, "thread {}: shared input result differs from sequential reference", t);
            let b = run(&mine, false);
            assert_eq!(b, ref_mine, "thread {}: own input result differs from sequential reference", t);
        }));
    }
    for h in handles {
        h.join().expect("thread panicked");
    }
    println!("c14-miri ok");
}
