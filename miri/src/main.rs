//! C14 Miri arm: sequential reference, then two threads concurrently calling
//! decompress_deflate_stream + recompress_deflate_stream on the same shared stream.
//! Exit 0 = all results identical and Miri saw no data race / uninitialised read.
mod streams;

use preflate_rs::{decompress_deflate_stream, recompress_deflate_stream};
use std::sync::Arc;

fn run(stream: &[u8], verify: bool) -> (Vec<u8>, Vec<u8>, usize, Vec<u8>) {
    let r = decompress_deflate_stream(stream, verify, 0).expect("analysis");
    let back = recompress_deflate_stream(&r.plain_text, &r.prediction_corrections).expect("reconstruction");
    assert_eq!(&back[..], &stream[..r.compressed_size], "reconstruction differs");
    (r.plain_text, r.prediction_corrections, r.compressed_size, back)
}

fn main() {
    // which of the three embedded streams: argv[1] (default 0)
    let which: usize = std::env::args().nth(1).and_then(|s| s.parse().ok()).unwrap_or(0) % 3;
    let stream: Vec<u8> = match which {
        0 => streams::STREAM_0.to_vec(),
        1 => streams::STREAM_1.to_vec(),
        _ => streams::STREAM_2.to_vec(),
    };
    let shared: Arc<Vec<u8>> = Arc::new(stream);
    // sequential reference (verify = true exercises the in-call reconstruction as well)
    let reference = run(&shared, true);
    let mut handles = Vec::new();
    for t in 0..2 {
        let shared = shared.clone();
        let reference = reference.clone();
        handles.push(std::thread::spawn(move || {
            let a = run(&shared, false);
            assert_eq!(a, reference, "thread {}: result differs from the sequential reference", t);
        }));
    }
    for h in handles {
        h.join().expect("thread panicked");
    }
    println!("c14-miri ok");
}
